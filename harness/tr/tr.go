// Package tr writes NDJSON event traces (one JSON object per line) for TLC trace validation.
package tr

import (
	"bufio"
	"encoding/json"
	"os"
	"sync"
)

// Ev is one event: a flat JSON object.
type Ev map[string]interface{}

// W is a concurrency-safe NDJSON writer; events get their order from the writer's mutex.
type W struct {
	mu sync.Mutex
	f  *os.File
	w  *bufio.Writer
	n  int
}

func Create(path string) (*W, error) {
	f, err := os.Create(path)
	if err != nil {
		return nil, err
	}
	return &W{f: f, w: bufio.NewWriterSize(f, 1<<20)}, nil
}

func (t *W) Emit(e Ev) {
	b, err := json.Marshal(e)
	if err != nil {
		panic(err)
	}
	t.mu.Lock()
	t.w.Write(b)
	t.w.WriteByte('\n')
	t.n++
	t.mu.Unlock()
}

func (t *W) Count() int { t.mu.Lock(); defer t.mu.Unlock(); return t.n }

func (t *W) Flush() { t.mu.Lock(); t.w.Flush(); t.mu.Unlock() }

func (t *W) Close() error {
	t.mu.Lock()
	defer t.mu.Unlock()
	t.w.Flush()
	return t.f.Close()
}
