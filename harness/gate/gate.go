// Package gate is a deterministic goroutine scheduler for code instrumented with verif yield points.
//
// Every controlled goroutine ("process") parks inside Yield at each hook; the scheduler releases
// exactly one process at a time, either following a prescribed schedule (a list of process names, for
// instance derived from a TLC behaviour) or by seeded random choice.  Executions are therefore
// sequentially consistent and totally ordered, and every step can be logged as one trace event.
// Goroutines that are not registered run free (their hook calls return immediately).
package gate

import (
	"bytes"
	"fmt"
	"math/rand"
	"runtime"
	"strconv"
	"sync"
	"time"
	"unsafe"
)

// Point is what a process announces when it parks.
type Point struct {
	Pt   string         // label of the yield point (the spec's pc label)
	A, B unsafe.Pointer // raw arguments of the hook
	X    int
	Info map[string]interface{} // harness-supplied details (op name, arguments, results)
}

type Proc struct {
	Name    string
	s       *Sched
	gid     int64
	resume  chan struct{}
	pending *Point
	done    bool
	started bool
	Steps   int
	// Blocked is consulted by the scheduler: a parked process whose Blocked() is true is not eligible.
	blocked func(p *Proc, at *Point) bool
}

type Sched struct {
	mu      sync.Mutex
	procs   []*Proc
	byGid   map[int64]*Proc
	notify  chan *Proc // a process parked or finished
	rnd     *rand.Rand
	Sched   []string // prescribed order of process names (consumed while it can be followed)
	pos     int
	Follow  int // number of schedule entries that could be followed
	OnStep  func(p *Proc, reached *Point, finished bool)
	Blocked func(p *Proc, at *Point) bool
	Timeout time.Duration
	// Stick is the probability of releasing the same process again when the schedule is chosen at random: uniform choice
	// (0) switches at almost every step, so windows that need one process to run a whole call while another is parked
	// mid-call are practically never hit; real schedulers run in bursts.  New draws it from the seed.
	Stick float64
	last  *Proc
	Trace []string // names of the processes in the order they were released
}

func New(seed int64) *Sched {
	s := &Sched{byGid: map[int64]*Proc{}, notify: make(chan *Proc, 64), rnd: rand.New(rand.NewSource(seed)), Timeout: 20 * time.Second}
	s.Stick = []float64{0, 0.5, 0.8, 0.9, 0.95}[s.rnd.Intn(5)]
	return s
}

func goid() int64 {
	var buf [64]byte
	n := runtime.Stack(buf[:], false)
	// "goroutine 123 ["
	b := buf[:n]
	b = b[len("goroutine "):]
	i := bytes.IndexByte(b, ' ')
	id, _ := strconv.ParseInt(string(b[:i]), 10, 64)
	return id
}

// Go starts fn as a controlled process.  fn must call p.Yield (directly or through hooks) to interleave.
func (s *Sched) Go(name string, fn func(p *Proc)) *Proc {
	p := &Proc{Name: name, s: s, resume: make(chan struct{})}
	s.mu.Lock()
	s.procs = append(s.procs, p)
	s.mu.Unlock()
	ready := make(chan struct{})
	go func() {
		p.gid = goid()
		s.mu.Lock()
		s.byGid[p.gid] = p
		s.mu.Unlock()
		close(ready)
		// park immediately: nothing runs before the scheduler says so
		p.Yield(&Point{Pt: "start"})
		fn(p)
		s.mu.Lock()
		p.done = true
		delete(s.byGid, p.gid)
		s.mu.Unlock()
		s.notify <- p
	}()
	<-ready
	return p
}

// Current returns the controlled process of the calling goroutine, or nil.
func (s *Sched) Current() *Proc {
	id := goid()
	s.mu.Lock()
	p := s.byGid[id]
	s.mu.Unlock()
	return p
}

// Yield parks the calling process at the given point until the scheduler releases it.
func (p *Proc) Yield(at *Point) {
	p.pending = at
	p.s.notify <- p
	<-p.resume
}

// Hook is the function to install as VerifHook: uncontrolled goroutines pass through.
func (s *Sched) Hook(label func(pt int) string) func(pt int, a, b unsafe.Pointer, x int) {
	return func(pt int, a, b unsafe.Pointer, x int) {
		p := s.Current()
		if p == nil {
			return
		}
		l := label(pt)
		if l == "" {
			return
		}
		p.Yield(&Point{Pt: l, A: a, B: b, X: x})
	}
}

// Run drives the processes until all have finished.  Returns an error on deadlock or time-out.
func (s *Sched) Run() error {
	// wait for every process to reach its initial park
	live := len(s.procs)
	parked := 0
	for parked < live {
		select {
		case <-s.notify:
			parked++
		case <-time.After(s.Timeout):
			return fmt.Errorf("gate: processes did not start")
		}
	}
	for {
		var elig []*Proc
		alive := 0
		for _, p := range s.procs {
			if p.done {
				continue
			}
			alive++
			if s.Blocked != nil && p.pending != nil && s.Blocked(p, p.pending) {
				continue
			}
			elig = append(elig, p)
		}
		if alive == 0 {
			return nil
		}
		if len(elig) == 0 {
			return fmt.Errorf("gate: deadlock: %d processes parked, none eligible", alive)
		}
		var next *Proc
		for s.pos < len(s.Sched) && next == nil {
			want := s.Sched[s.pos]
			s.pos++
			for _, p := range elig {
				if p.Name == want {
					next = p
					s.Follow++
				}
			}
		}
		if next == nil && s.last != nil && s.Stick > 0 && s.rnd.Float64() < s.Stick {
			for _, p := range elig {
				if p == s.last {
					next = p
				}
			}
		}
		if next == nil {
			next = elig[s.rnd.Intn(len(elig))]
		}
		s.last = next
		s.Trace = append(s.Trace, next.Name)
		next.Steps++
		next.resume <- struct{}{}
		select {
		case q := <-s.notify:
			if q != next {
				return fmt.Errorf("gate: process %s moved while %s was released", q.Name, next.Name)
			}
			if s.OnStep != nil {
				s.OnStep(next, next.pending, next.done)
			}
		case <-time.After(s.Timeout):
			buf := make([]byte, 1<<18)
			n := runtime.Stack(buf, true)
			return fmt.Errorf("gate: process %s did not reach its next yield point within %v (blocked outside the gate?)\n%s", next.Name, s.Timeout, buf[:n])
		}
	}
}
