package main

// shut: Nitro.Close racing a StoreToDisk with delta interleaving, late snapshot closes and GC
// (growth beyond the listed properties; model: Shutdown.tla).  Outcomes are recorded as "Shut" events:
// both calls must return (no goroutine left blocked), StoreToDisk returns nil or ErrShutdown, and a backup
// that reported success restores exactly (C05).
//
//   vh shut -out trace.ndjson -dir D [-seed S -n N]

import (
	"flag"
	"fmt"
	"math/rand"
	"os"
	"runtime"
	"strings"
	"time"

	"github.com/couchbase/nitro"
	"verif/harness/nh"
	"verif/harness/tr"
)

func init() { register("shut", shutMain) }

func shutMain(args []string) int {
	fs := flag.NewFlagSet("shut", flag.ExitOnError)
	out := fs.String("out", "trace.ndjson", "")
	dir := fs.String("dir", "shutbk", "")
	seed := fs.Int64("seed", 1, "")
	n := fs.Int("n", 50, "")
	fs.Parse(args)
	t, err := tr.Create(*out)
	if err != nil {
		die("%v", err)
	}
	defer t.Close()
	rnd := rand.New(rand.NewSource(*seed))
	for i := 0; i < *n; i++ {
		cfg := nh.Cfg{KV: true, MM: rnd.Intn(2) == 0, Writers: 1 + rnd.Intn(3), Delta: rnd.Intn(4) > 0}
		d := nh.Open(cfg)
		nk := 20 + rnd.Intn(200)
		for k := 1; k <= nk; k++ {
			if rnd.Intn(4) > 0 {
				d.W[rnd.Intn(len(d.W))].Put2(d.Item(k, k))
			}
		}
		s1, _ := d.NewSnapshot()
		for k := 1; k <= nk; k += 3 {
			d.W[0].Delete(d.Item(k, 0))
		}
		s2, _ := d.NewSnapshot()
		view, _ := d.Scan(s2, 0)
		os.RemoveAll(*dir)
		storeDone := make(chan error, 1)
		closeDone := make(chan struct{})
		delay := time.Duration(rnd.Intn(400)) * time.Microsecond
		go func() {
			s2.Open()
			storeDone <- d.StoreToDisk(*dir, s2, 1+rnd.Intn(3), func(*nitro.ItemEntry) {
				if rnd.Intn(8) == 0 {
					runtime.Gosched()
				}
			})
		}()
		go func() {
			time.Sleep(delay)
			s1.Close()
			s2.Close()
			d.Nitro.Close()
			close(closeDone)
		}()
		e := tr.Ev{"e": "Shut", "cfg": cfg, "view": view, "delay_us": delay.Microseconds()}
		var serr error
		sret, cret := false, false
		deadline := time.After(60 * time.Second)
		for !(sret && cret) {
			select {
			case serr = <-storeDone:
				sret = true
			case <-closeDone:
				cret = true
				closeDone = nil
			case <-deadline:
				buf := make([]byte, 1<<20)
				m := runtime.Stack(buf, true)
				st := string(buf[:m])
				blocked := strings.Contains(st, "chan send") || strings.Contains(st, "chan receive") || strings.Contains(st, "semacquire") || strings.Contains(st, "select")
				e["stuck"] = blocked
				goto done
			}
		}
	done:
		e["store_returned"], e["close_returned"] = sret, cret
		bret := "none"
		if sret {
			switch {
			case serr == nil:
				bret = "ok"
			case serr == nitro.ErrShutdown:
				bret = "shutdown"
			default:
				bret = "other: " + serr.Error()
			}
		}
		e["bret"] = bret
		e["loaded"], e["items"], e["count"] = false, [][2]int{}, 0
		if bret == "ok" {
			nd := nh.Open(nh.Cfg{KV: true, Writers: 1, Delta: cfg.Delta})
			rs, lerr := nd.LoadFromDisk(*dir, 2, nil)
			if lerr == nil {
				nd.RefreshStore()
				items, _ := nd.Scan(rs, 0)
				e["loaded"], e["items"], e["count"] = true, items, rs.Count()
				rs.Close()
			} else {
				e["loaderr"] = lerr.Error()
			}
			nd.Shutdown()
		}
		if cfg.MM && cret && sret {
			m, f, live, errs := d.Mem.Counts()
			e["mallocs"], e["frees"], e["live"], e["allocerrs"] = m, f, live, len(errs)
		}
		t.Emit(e)
		if !(sret && cret) {
			break // goroutines are stuck: stop here
		}
	}
	os.RemoveAll(*dir)
	fmt.Printf("{\"scenarios\":%d,\"events\":%d}\n", *n, t.Count())
	return 0
}
