package main

// frame: item encoding, file framing, checksums, KV helpers (property C19).
//
//   vh frame -out trace.ndjson -dir <scratch> [-seed S -n N] [-big]
//
// Items are written through the real backup FileWriter and read back through the real FileReader
// (format v1); v0 files are laid out by the harness and read by the real v0 reader.  Events carry the
// item bytes, the file bytes, the decoded items and both checksums; TLC recomputes the framing with
// Framing.tla and compares byte for byte.

import (
	"bytes"
	"flag"
	"fmt"
	"math/rand"
	"os"
	"path/filepath"

	"github.com/couchbase/nitro"
	"verif/harness/tr"
)

func init() { register("frame", frameMain) }

func ints(b []byte) []int {
	out := make([]int, len(b))
	for i, x := range b {
		out[i] = int(x)
	}
	return out
}

func intss(bs [][]byte) [][]int {
	out := make([][]int, len(bs))
	for i, b := range bs {
		out[i] = ints(b)
	}
	return out
}

func genItem(rnd *rand.Rand, maxLen int) []byte {
	var n int
	switch rnd.Intn(10) {
	case 0:
		n = 1
	case 1:
		n = 1 + rnd.Intn(4)
	case 2:
		n = []int{255, 256, 257, 65535 % maxLen, 65536 % maxLen, 4, 2}[rnd.Intn(7)]
	default:
		n = 1 + rnd.Intn(maxLen)
	}
	if n < 1 {
		n = 1
	}
	if n > maxLen {
		n = maxLen
	}
	b := make([]byte, n)
	switch rnd.Intn(5) {
	case 0: // all zero: looks like terminators / length prefixes
	case 1:
		for i := range b {
			b[i] = 0xff
		}
	case 2: // embedded frame headers
		for i := range b {
			b[i] = []byte{0, 0, 0, 1, 0, 0, 0, 0, 0, 2}[i%10]
		}
	default:
		rnd.Read(b)
	}
	return b
}

func frameMain(args []string) int {
	fs := flag.NewFlagSet("frame", flag.ExitOnError)
	out := fs.String("out", "trace.ndjson", "")
	dir := fs.String("dir", ".", "")
	seed := fs.Int64("seed", 1, "")
	n := fs.Int("n", 100, "")
	big := fs.Bool("big", false, "include items up to 70000 bytes")
	huge := fs.Int("huge", 0, "number of streams with one item of 16 MiB or more")
	fs.Parse(args)
	t, err := tr.Create(*out)
	if err != nil {
		die("%v", err)
	}
	defer t.Close()
	rnd := rand.New(rand.NewSource(*seed))
	db := nitro.New()
	defer db.Close()
	path := filepath.Join(*dir, "frame.data")
	// small disk blocks so that buffer flushes happen inside streams
	saved := nitro.DiskBlockSize
	defer func() { nitro.DiskBlockSize = saved }()
	for i := 0; i < *n; i++ {
		i := i
		guarded(t, func() {
			maxLen := []int{3, 8, 40, 300, 300}[rnd.Intn(5)]
			nitems := rnd.Intn(6)
			if *big && i%10 == 0 {
				maxLen = 70000
				nitems = 1 + rnd.Intn(2)
			}
			nitro.DiskBlockSize = []int{16, 64, 4096, 512 * 1024}[rnd.Intn(4)]
			var items [][]byte
			for j := 0; j < nitems; j++ {
				items = append(items, genItem(rnd, maxLen))
			}
			if items == nil {
				items = [][]byte{}
			}
			ver := 1
			if rnd.Intn(4) == 0 {
				ver = 0 // the old format has a 2-byte length: items up to 65535 bytes
				for j := range items {
					if len(items[j]) > 65535 {
						items[j] = items[j][:65535]
					}
				}
			}
			e := tr.Ev{"e": "Stream", "ver": ver, "items": intss(items), "blk": nitro.DiskBlockSize}
			os.Remove(path)
			if ver == 1 {
				w := db.VerifNewFileWriter()
				if err := w.Open(path); err != nil {
					die("open: %v", err)
				}
				werr := ""
				for _, it := range items {
					if err := w.WriteItem(db.VerifNewItem(it)); err != nil {
						werr = err.Error()
					}
				}
				e["wsum"] = w.Checksum() // as StoreToDisk reads it: before Close
				if err := w.Close(); err != nil {
					werr = err.Error()
				}
				e["wsumclosed"] = w.Checksum()
				e["werr"] = werr
			} else {
				// v0 layout: 2-byte big-endian length, item; terminator = 2 zero bytes (only items < 65536 bytes)
				var buf bytes.Buffer
				for _, it := range items {
					buf.Write([]byte{byte(len(it) >> 8), byte(len(it))})
					buf.Write(it)
				}
				buf.Write([]byte{0, 0})
				if err := os.WriteFile(path, buf.Bytes(), 0644); err != nil {
					die("write: %v", err)
				}
				e["wsum"] = 0
				e["werr"] = ""
			}
			fb, err := os.ReadFile(path)
			if err != nil {
				die("read: %v", err)
			}
			e["file"] = ints(fb)
			r := db.VerifNewFileReader(ver)
			if err := r.Open(path); err != nil {
				die("ropen: %v", err)
			}
			var dec [][]byte
			eos := false
			rerr := ""
			for k := 0; k < len(items)+3; k++ {
				itm, err := r.ReadItem()
				if err != nil {
					rerr = err.Error()
					break
				}
				if itm == nil {
					eos = true
					break
				}
				dec = append(dec, append([]byte(nil), itm.Bytes()...))
			}
			if dec == nil {
				dec = [][]byte{}
			}
			e["decoded"] = intss(dec)
			e["eos"] = eos
			e["rerr"] = rerr
			e["rsum"] = r.Checksum()
			r.Close()
			t.Emit(e)

			// KV helpers
			k := genItem(rnd, 12)
			if rnd.Intn(6) == 0 {
				k = []byte{}
			}
			if i < len(kvLongKeys) {
				// key lengths around the byte boundaries of the 2-byte length field
				k = make([]byte, kvLongKeys[i])
				rnd.Read(k)
			}
			if i < len(kvHugeKeys) {
				// very long keys: too large to log byte by byte -- the header, the total length and the round trip are logged
				hk := make([]byte, kvHugeKeys[i])
				rnd.Read(hk)
				hv := genItem(rnd, 12)
				henc := nitro.KVToBytes(hk, hv)
				hdk, hdv := nitro.KVFromBytes(henc)
				hk2 := append(append([]byte(nil), hk[:len(hk)-1]...), hk[len(hk)-1]+1) // differs in the last key byte only
				t.Emit(tr.Ev{"e": "KVL", "lk": len(hk), "lv": len(hv), "lenc": len(henc), "hdr": ints(henc[:2]),
					"keyok": bytes.Equal(hdk, hk), "valok": bytes.Equal(hdv, hv), "keyinplace": bytes.Equal(henc[2:2+len(hk)], hk),
					"cmpself": sign(nitro.CompareKV(henc, nitro.KVToBytes(hk, genItem(rnd, 5)))),
					"cmplast": sign(nitro.CompareKV(henc, nitro.KVToBytes(hk2, hv))), "wantlast": sign(bytes.Compare(hk, hk2))})
			}
			v := genItem(rnd, 12)
			if rnd.Intn(6) == 0 {
				v = []byte{}
			}
			enc := nitro.KVToBytes(k, v)
			dk, dv := nitro.KVFromBytes(enc)
			t.Emit(tr.Ev{"e": "KV", "k": ints(k), "v": ints(v), "enc": ints(enc), "dk": ints(dk), "dv": ints(dv)})
			k2 := genItem(rnd, 4)
			if rnd.Intn(3) == 0 {
				k2 = append([]byte(nil), k...)
				if len(k2) > 0 && rnd.Intn(2) == 0 {
					k2 = k2[:len(k2)-1]
				}
			}
			a, b := nitro.KVToBytes(k, v), nitro.KVToBytes(k2, genItem(rnd, 3))
			t.Emit(tr.Ev{"e": "Cmp", "a": ints(a), "b": ints(b), "r": sign(nitro.CompareKV(a, b)), "rr": sign(nitro.CompareKV(b, a))})
		})
	}
	// items whose length needs the upper bytes of the 4-byte prefix (16 MiB and more): too large to log byte by byte, so the
	// frame headers found at the offsets the format prescribes, the file size and the reader's results are logged
	for _, L := range hugeLens(*huge, rnd) {
		L := L
		guarded(t, func() {
			nitro.DiskBlockSize = 512 * 1024
			lens := []int{8, L, 5}
			var items [][]byte
			for _, n := range lens {
				b := make([]byte, n)
				rnd.Read(b)
				items = append(items, b)
			}
			os.Remove(path)
			w := db.VerifNewFileWriter()
			if err := w.Open(path); err != nil {
				die("open: %v", err)
			}
			werr := ""
			for _, it := range items {
				if err := w.WriteItem(db.VerifNewItem(it)); err != nil {
					werr = err.Error()
				}
			}
			wsum := w.Checksum()
			if err := w.Close(); err != nil {
				werr = err.Error()
			}
			st, _ := os.Stat(path)
			f, _ := os.Open(path)
			hdrs := [][]int{}
			off := int64(0)
			for _, n := range append(lens, 0) {
				h := make([]byte, 4)
				f.ReadAt(h, off)
				hdrs = append(hdrs, ints(h))
				off += 4 + int64(n)
			}
			f.Close()
			r := db.VerifNewFileReader(1)
			if err := r.Open(path); err != nil {
				die("ropen: %v", err)
			}
			dlens, same, eos, rerr := []int{}, []bool{}, false, ""
			for k := 0; k < len(items)+3; k++ {
				itm, err := r.ReadItem()
				if err != nil {
					rerr = err.Error()
					break
				}
				if itm == nil {
					eos = true
					break
				}
				dlens = append(dlens, len(itm.Bytes()))
				same = append(same, k < len(items) && bytes.Equal(itm.Bytes(), items[k]))
			}
			rsum := r.Checksum()
			r.Close()
			t.Emit(tr.Ev{"e": "Huge", "lens": lens, "size": st.Size(), "hdrs": hdrs, "dlens": dlens, "same": same, "eos": eos,
				"werr": werr, "rerr": rerr, "sumeq": wsum == rsum})
		})
	}
	os.Remove(path)
	fmt.Printf("{\"scenarios\":%d,\"events\":%d}\n", *n, t.Count())
	return 0
}

func sign(x int) int {
	if x < 0 {
		return -1
	}
	if x > 0 {
		return 1
	}
	return 0
}

func hugeLens(n int, rnd *rand.Rand) []int {
	base := []int{1 << 24, 1<<24 + 3, 1<<24 + 1<<16 + 258, 1<<25 + 1}
	out := []int{}
	for i := 0; i < n; i++ {
		if i < len(base) {
			out = append(out, base[i])
		} else {
			out = append(out, 1<<24+rnd.Intn(1<<24))
		}
	}
	return out
}

var kvLongKeys = []int{255, 256, 257}

var kvHugeKeys = []int{32767, 32768, 65535}
