package main

// nt: node table and node list drivers (property C20).
//
//   vh nt -out trace.ndjson [-scripts file.ndjson] [-seed S -n N -len L]
//
// Script lines: {"hash":[b1,b2,...],"ops":[["DoUpdate",k,g],["DoRemove",k],...]}   (from TLC's state graph)
// Random mode generates scenarios with constant / few-bucket / crc32 hash functions.

import (
	"bufio"
	"bytes"
	"encoding/json"
	"flag"
	"fmt"
	"hash/crc32"
	"math/rand"
	"os"
	"unsafe"

	"github.com/couchbase/nitro"
	"github.com/couchbase/nitro/nodetable"
	"github.com/couchbase/nitro/skiplist"
	"verif/harness/tr"
)

func init() { register("nt", ntMain); register("nl", nlMain) }

type ntObj struct {
	key []byte
	k   int
	g   int
}

type ntScript struct {
	Hash []int           `json:"hash"`
	Ops  [][]interface{} `json:"ops"`
}

func ntKey(k int) []byte { return []byte(fmt.Sprintf("key-%03d", k)) }

func ntPtr(p unsafe.Pointer) []int {
	if p == nil {
		return []int{0, 0}
	}
	o := (*ntObj)(p)
	return []int{o.k, o.g}
}

var ntStatsRe = `{
"FastHTCount":  %d,
"SlowHTCount":  %d,
"Conflicts":   %d,
"MemoryInUse": %d
}`

func ntRun(t *tr.W, sc ntScript, nkeys int) {
	// hash function given as a table over key ids (dense bucket ids)
	hash := func(key []byte) uint32 {
		var k int
		fmt.Sscanf(string(key), "key-%d", &k)
		return uint32(sc.Hash[k-1]) * 2654435761 // spread bucket ids over the 32-bit range
	}
	eq := func(p unsafe.Pointer, key []byte) bool { return bytes.Equal((*ntObj)(p).key, key) }
	nt := nodetable.New(hash, eq)
	defer nt.Close()
	var keep []*ntObj // keep objects reachable: the table stores them as uint64
	t.Emit(tr.Ev{"e": "Init", "hash": sc.Hash})
	obs := func(e tr.Ev) {
		gets := make([][]int, nkeys)
		for k := 1; k <= nkeys; k++ {
			gets[k-1] = ntPtr(nt.Get(ntKey(k)))
		}
		e["gets"] = gets
		e["count"] = nt.ItemsCount()
		var fc, sc, cf, mem int64
		fmt.Sscanf(nt.Stats(), ntStatsRe, &fc, &sc, &cf, &mem)
		e["fc"], e["sc"], e["cf"], e["mem"] = fc, sc, cf, mem
		if mem != nt.MemoryInUse() {
			e["mem"] = -1
		}
	}
	for _, op := range sc.Ops {
		name := op[0].(string)
		k := int(op[1].(float64))
		switch name {
		case "DoUpdate", "Update":
			g := int(op[2].(float64))
			o := &ntObj{key: ntKey(k), k: k, g: g}
			keep = append(keep, o)
			upd, old := nt.Update(ntKey(k), unsafe.Pointer(o))
			e := tr.Ev{"e": "Update", "k": k, "g": g, "updated": upd, "old": ntPtr(old)}
			obs(e)
			t.Emit(e)
		case "DoRemove", "Remove":
			ok, p := nt.Remove(ntKey(k))
			e := tr.Ev{"e": "Remove", "k": k, "ok": ok, "ptr": ntPtr(p)}
			obs(e)
			t.Emit(e)
		default:
			die("nt: unknown op %q", name)
		}
	}
	_ = keep
}

func ntMain(args []string) int {
	fs := flag.NewFlagSet("nt", flag.ExitOnError)
	out := fs.String("out", "trace.ndjson", "")
	scripts := fs.String("scripts", "", "")
	seed := fs.Int64("seed", 1, "")
	n := fs.Int("n", 100, "")
	ln := fs.Int("len", 60, "")
	nkeys := fs.Int("keys", 8, "")
	fs.Parse(args)
	t, err := tr.Create(*out)
	if err != nil {
		die("%v", err)
	}
	defer t.Close()
	nsc := 0
	if *scripts != "" {
		f, err := os.Open(*scripts)
		if err != nil {
			die("%v", err)
		}
		defer f.Close()
		r := bufio.NewScanner(f)
		r.Buffer(make([]byte, 1<<20), 1<<26)
		for r.Scan() {
			var sc ntScript
			if err := json.Unmarshal(r.Bytes(), &sc); err != nil {
				die("script: %v", err)
			}
			for len(sc.Hash) < *nkeys {
				sc.Hash = append(sc.Hash, 1)
			}
			guarded(t, func() { ntRun(t, sc, *nkeys) })
			nsc++
		}
	} else {
		rnd := rand.New(rand.NewSource(*seed))
		for i := 0; i < *n; i++ {
			var sc ntScript
			// hash functions: constant, 2 buckets, 3 buckets, crc32 (8 distinct values mapped to dense ids)
			mode := rnd.Intn(4)
			dense := map[uint32]int{}
			for k := 1; k <= *nkeys; k++ {
				var h uint32
				switch mode {
				case 0:
					h = 7
				case 1:
					h = uint32(k % 2)
				case 2:
					h = uint32(rnd.Intn(3))
				default:
					h = crc32.ChecksumIEEE(ntKey(k))
				}
				if _, ok := dense[h]; !ok {
					dense[h] = len(dense) + 1
				}
				sc.Hash = append(sc.Hash, dense[h])
			}
			g := 0
			live := *nkeys/2 + rnd.Intn(*nkeys/2+1) // keys actually used in this scenario
			for j := 0; j < *ln; j++ {
				k := 1 + rnd.Intn(live)
				if rnd.Intn(5) < 3 {
					g++
					sc.Ops = append(sc.Ops, []interface{}{"Update", float64(k), float64(g)})
				} else {
					sc.Ops = append(sc.Ops, []interface{}{"Remove", float64(k)})
				}
			}
			guarded(t, func() { ntRun(t, sc, *nkeys) })
			nsc++
		}
	}
	fmt.Printf("{\"scenarios\":%d,\"events\":%d}\n", nsc, t.Count())
	return 0
}

// ---------------------------------------------------------------- NodeList

type nlScript struct {
	Ops [][]interface{} `json:"ops"`
}

func nlMain(args []string) int {
	fs := flag.NewFlagSet("nl", flag.ExitOnError)
	out := fs.String("out", "trace.ndjson", "")
	scripts := fs.String("scripts", "", "")
	seed := fs.Int64("seed", 1, "")
	n := fs.Int("n", 100, "")
	ln := fs.Int("len", 40, "")
	nkeys := fs.Int("keys", 4, "")
	fs.Parse(args)
	t, err := tr.Create(*out)
	if err != nil {
		die("%v", err)
	}
	defer t.Close()

	run := func(sc nlScript) {
		// Real skiplist nodes: several nodes may carry equal keys (one per nitro instance).
		const ninst = 3
		var dbs []*nitro.Nitro
		var ws []*nitro.Writer
		for i := 0; i < ninst; i++ {
			db := nitro.New()
			dbs = append(dbs, db)
			ws = append(ws, db.NewWriter())
		}
		defer func() {
			for _, db := range dbs {
				db.Close()
			}
		}()
		nodes := map[[2]int]*skiplist.Node{} // (key, copy) -> node
		ids := map[*skiplist.Node][2]int{}
		node := func(k, c int) *skiplist.Node {
			id := [2]int{k, c}
			if nd, ok := nodes[id]; ok {
				return nd
			}
			nd := ws[c-1].Put2([]byte(fmt.Sprintf("k%d", k)))
			if nd == nil {
				die("nl: Put2 failed")
			}
			nodes[id] = nd
			ids[nd] = id
			return nd
		}
		nid := func(nd *skiplist.Node) []int {
			if nd == nil {
				return []int{0, 0}
			}
			id, ok := ids[nd]
			if !ok {
				return []int{-1, -1}
			}
			return []int{id[0], id[1]}
		}
		l := nitro.NewNodeList(nil)
		t.Emit(tr.Ev{"e": "LInit"})
		obs := func(e tr.Ev) {
			var ks []int
			for _, kb := range l.Keys() {
				var k int
				fmt.Sscanf(string(kb), "k%d", &k)
				ks = append(ks, k)
			}
			if ks == nil {
				ks = []int{}
			}
			e["keys"] = ks
			e["head"] = nid(l.Head())
			// walk the list through the public link accessor
			var walk [][]int
			for nd := l.Head(); nd != nil; nd = nd.GetLink() {
				walk = append(walk, nid(nd))
				if len(walk) > 1000 {
					break
				}
			}
			if walk == nil {
				walk = [][]int{}
			}
			e["walk"] = walk
		}
		for _, op := range sc.Ops {
			name := op[0].(string)
			k := int(op[1].(float64))
			switch name {
			case "LAdd", "DoAdd":
				c := int(op[2].(float64))
				l.Add(node(k, c))
				e := tr.Ev{"e": "LAdd", "k": k, "c": c}
				obs(e)
				t.Emit(e)
			case "LRemove", "DoLRemove":
				nd := l.Remove([]byte(fmt.Sprintf("k%d", k)))
				e := tr.Ev{"e": "LRemove", "k": k, "ret": nid(nd)}
				obs(e)
				t.Emit(e)
			default:
				die("nl: unknown op %q", name)
			}
		}
	}
	nsc := 0
	if *scripts != "" {
		f, err := os.Open(*scripts)
		if err != nil {
			die("%v", err)
		}
		defer f.Close()
		r := bufio.NewScanner(f)
		r.Buffer(make([]byte, 1<<20), 1<<26)
		for r.Scan() {
			var sc nlScript
			if err := json.Unmarshal(r.Bytes(), &sc); err != nil {
				die("script: %v", err)
			}
			guarded(t, func() { run(sc) })
			nsc++
		}
	} else {
		rnd := rand.New(rand.NewSource(*seed))
		for i := 0; i < *n; i++ {
			var sc nlScript
			in := map[[2]int]bool{}
			for j := 0; j < *ln; j++ {
				k := 1 + rnd.Intn(*nkeys)
				if rnd.Intn(5) < 3 {
					c := 1 + rnd.Intn(3)
					if in[[2]int{k, c}] {
						continue // a node is in the list at most once (it has one link field)
					}
					in[[2]int{k, c}] = true
					sc.Ops = append(sc.Ops, []interface{}{"LAdd", float64(k), float64(c)})
				} else {
					// model which copy leaves: the most recently added one with key k is found first
					sc.Ops = append(sc.Ops, []interface{}{"LRemove", float64(k)})
					// membership is re-derived below from a tiny reference list
					in = nil
				}
				if in == nil {
					in = nlReplay(sc.Ops)
				}
			}
			guarded(t, func() { run(sc) })
			nsc++
		}
	}
	fmt.Printf("{\"scenarios\":%d,\"events\":%d}\n", nsc, t.Count())
	return 0
}

// nlReplay recomputes which (key,copy) nodes are in the list after ops (driver precondition only:
// a node must not be added while it is already linked; not an oracle).
func nlReplay(ops [][]interface{}) map[[2]int]bool {
	var lst [][2]int
	for _, op := range ops {
		k := int(op[1].(float64))
		if op[0].(string) == "LAdd" {
			lst = append([][2]int{{k, int(op[2].(float64))}}, lst...)
		} else {
			for i, x := range lst {
				if x[0] == k {
					lst = append(lst[:i:i], lst[i+1:]...)
					break
				}
			}
		}
	}
	in := map[[2]int]bool{}
	for _, x := range lst {
		in[x] = true
	}
	return in
}
