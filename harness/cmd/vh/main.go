// vh: verification harness for couchbase/nitro.  One sub-command per driver; every driver
// executes the real code (built from /repo's working tree) and writes an NDJSON event trace
// that is judged by a TLA+ trace specification under TLC.
package main

import (
	"fmt"
	"os"
	"regexp"
	"runtime/debug"
	"runtime/pprof"
	"sort"

	"verif/harness/tr"
)

type cmdFn func(args []string) int

var cmds = map[string]cmdFn{}

func register(name string, f cmdFn) { cmds[name] = f }

func main() {
	if len(os.Args) < 2 {
		usage()
	}
	f, ok := cmds[os.Args[1]]
	if !ok {
		usage()
	}
	if p := os.Getenv("VH_CPUPROFILE"); p != "" {
		pf, _ := os.Create(p)
		pprof.StartCPUProfile(pf)
		rc := f(os.Args[2:])
		pprof.StopCPUProfile()
		pf.Close()
		os.Exit(rc)
	}
	os.Exit(f(os.Args[2:]))
}

func usage() {
	var names []string
	for n := range cmds {
		names = append(names, n)
	}
	sort.Strings(names)
	fmt.Fprintln(os.Stderr, "usage: vh <command> [flags]; commands:", names)
	os.Exit(2)
}

func die(format string, a ...interface{}) {
	fmt.Fprintf(os.Stderr, "vh: "+format+"\n", a...)
	os.Exit(2)
}

var nitroFrame = regexp.MustCompile(`(?m)^(github\.com/couchbase/nitro[^\s(]*(?:\([^)]*\)[^\s(]*)*)\(`)

// guarded runs f, which drives the code under test from this goroutine.  A panic raised by a legal call
// sequence is behaviour of the real code: it becomes a "Panic" event (judged by the trace specification)
// instead of killing the driver.
func guarded(t *tr.W, f func()) (panicked bool) {
	// an access to poisoned (freed) memory becomes a panic of this goroutine instead of a fatal error of the process
	defer debug.SetPanicOnFault(debug.SetPanicOnFault(true))
	defer func() {
		if x := recover(); x != nil {
			panicked = true
			where := ""
			if m := nitroFrame.FindSubmatch(debug.Stack()); m != nil {
				where = string(m[1])
			}
			t.Emit(tr.Ev{"e": "Panic", "msg": fmt.Sprint(x), "where": where})
		}
	}()
	f()
	return false
}
