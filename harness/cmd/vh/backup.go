package main

// Backup / restore drivers (C05, C11, C12).
//
//   vh bk-gen    -dir D [-seed S -items N -kv -mm -delta -conc C -blk B -limit L -older]   child: build a database, StoreToDisk
//   vh bk-load   -dirs file -out trace.ndjson [-conc C -delta -kv -mm]                     load every listed directory
//   vh bk-damage -dir D -expect file -out trace.ndjson [-part i -of n -conc C ...]         enumerate single-fault damages in place

import (
	"bufio"
	"encoding/json"
	"flag"
	"fmt"
	"math/rand"
	"os"
	"os/signal"
	"path/filepath"
	"runtime"
	"sort"
	"strings"
	"syscall"
	"time"

	"github.com/couchbase/nitro"
	"verif/harness/nh"
	"verif/harness/tr"
)

func init() {
	register("bk-gen", bkGenMain)
	register("bk-load", bkLoadMain)
	register("bk-damage", bkDamageMain)
}

type bkOpts struct {
	kv, mm, delta bool
	fixkey        bool
	conc          int
	lblk          int // DiskBlockSize while loading (0 = default): small values make the readers refill inside frames
}

func (o *bkOpts) flags(fs *flag.FlagSet) {
	fs.BoolVar(&o.kv, "kv", false, "")
	fs.BoolVar(&o.mm, "mm", false, "")
	fs.BoolVar(&o.delta, "delta", false, "")
	fs.BoolVar(&o.fixkey, "fixkey", false, "keys of one length")
	fs.IntVar(&o.conc, "conc", 2, "")
	fs.IntVar(&o.lblk, "lblk", 0, "DiskBlockSize used by LoadFromDisk")
}

func (o *bkOpts) cfg(writers int) nh.Cfg {
	return nh.Cfg{KV: o.kv, MM: o.mm, Delta: o.delta, Writers: writers, FixKey: o.fixkey}
}

// ---------------------------------------------------------------- bk-gen (runs as a child process)

type bkGenOut struct {
	Ret       string   `json:"ret"` // "ok" or the error text
	Sn        int      `json:"sn"`
	View      [][2]int `json:"view"`
	Count     int64    `json:"count"`
	Phys      int      `json:"phys"`
	DeltaGC   int      `json:"deltagc"` // garbage lists collected while the backup was running
	StoreMs   int64    `json:"store_ms"`
	NumShards int      `json:"nshards"`
}

func bkGenMain(args []string) int {
	fs := flag.NewFlagSet("bk-gen", flag.ExitOnError)
	var o bkOpts
	o.flags(fs)
	dir := fs.String("dir", "", "")
	seed := fs.Int64("seed", 1, "")
	items := fs.Int("items", 20, "")
	blk := fs.Int("blk", 0, "DiskBlockSize override")
	limit := fs.Int64("limit", -1, "RLIMIT_FSIZE for this process (bytes); SIGXFSZ ignored so writes fail with EFBIG")
	older := fs.Bool("older", false, "store an older snapshot while newer versions exist")
	gcduring := fs.Bool("gcduring", false, "close older snapshots and force GC while the backup is scanning (delta mode exercises the delta log)")
	nwr := fs.Int("writers", 2, "writers of the stored instance (> NumCPU: more delta files than data shards)")
	fs.Parse(args)
	if *blk > 0 {
		nitro.DiskBlockSize = *blk
	}
	rnd := rand.New(rand.NewSource(*seed))
	if *nwr < 2 {
		*nwr = 2
	}
	d := nh.Open(o.cfg(*nwr))
	nk := *items
	put := func(w, k int) { d.W[w].Put2(d.Item(k, 1+rnd.Intn(3))) }
	// history: load, snapshot, churn (deletes + re-inserts), snapshot ...
	for k := 1; k <= nk; k++ {
		if rnd.Intn(4) > 0 {
			put(rnd.Intn(2), k)
		}
	}
	var snaps []*nitro.Snapshot
	for round := 0; round < 3; round++ {
		s, _ := d.NewSnapshot()
		snaps = append(snaps, s)
		for j := 0; j < nk/2+1; j++ {
			k := 1 + rnd.Intn(nk)
			if rnd.Intn(2) == 0 {
				d.W[rnd.Intn(2)].Delete(d.Item(k, 0))
			} else {
				put(rnd.Intn(2), k)
			}
		}
	}
	last, _ := d.NewSnapshot()
	snaps = append(snaps, last)
	target := last
	if *older {
		target = snaps[1]
		// newer versions of the keys exist physically
	}
	sn, _, _ := nitro.VerifSnapInfo(target)
	view, _ := d.Scan(target, 0)
	out := bkGenOut{Sn: int(sn), View: view, Count: target.Count(), NumShards: runtime.NumCPU()}
	phys, _ := d.Phys()
	out.Phys = len(phys)
	if *limit >= 0 {
		signal.Ignore(syscall.SIGXFSZ)
		lim := syscall.Rlimit{Cur: uint64(*limit), Max: uint64(*limit)}
		if err := syscall.Setrlimit(syscall.RLIMIT_FSIZE, &lim); err != nil {
			die("setrlimit: %v", err)
		}
	}
	target.Open() // StoreToDisk consumes one reference
	var cb nitro.ItemCallback
	fired := false
	if *gcduring {
		cb = func(*nitro.ItemEntry) {
			if fired {
				return
			}
			fired = true
			// while the scan is inside a shard: delete visible items, retire every other snapshot, collect
			for k := 1; k <= nk; k += 2 {
				d.W[0].Delete(d.Item(k, 0))
			}
			s2, _ := d.NewSnapshot()
			for _, s := range snaps {
				if s != target || o.delta {
					s.Close()
				}
			}
			snaps = nil
			s2.Close()
			d.GC()
			d.Quiesce()
			out.DeltaGC++
		}
	}
	t0 := time.Now()
	err := d.StoreToDisk(*dir, target, o.conc, cb)
	out.StoreMs = time.Since(t0).Milliseconds()
	out.Ret = "ok"
	if err != nil {
		out.Ret = err.Error()
	}
	js, _ := json.Marshal(out)
	// the result goes to stdout (a pipe: not subject to RLIMIT_FSIZE)
	fmt.Println(string(js))
	os.Stdout.Sync()
	// no orderly shutdown: the child's only job was the backup
	return 0
}

// ---------------------------------------------------------------- loading with outcome classification

type loadOutcome struct {
	Outcome   string   `json:"outcome"` // "ok" | "err" | "panic" | "hang"
	Msg       string   `json:"msg"`
	Items     [][2]int `json:"items"`
	Count     int64    `json:"count"`
	Leak      int      `json:"leak"`      // blocks still allocated after Close of the instance that loaded (or failed to load) the image
	AllocErrs int      `json:"allocerrs"` // double / invalid frees recorded by the allocator
}

// loadDir runs LoadFromDisk on a fresh instance under a watchdog; panics of the calling goroutine are
// caught, a panic in a goroutine spawned by the library kills the process (the parent attributes it
// to the image announced last).
func loadDir(dir string, o *bkOpts, watchdog time.Duration) loadOutcome {
	if o.lblk > 0 {
		nitro.DiskBlockSize = o.lblk
	}
	type res struct {
		out loadOutcome
	}
	ch := make(chan loadOutcome, 1)
	d := nh.Open(o.cfg(1))
	go func() {
		var out loadOutcome
		defer func() {
			if r := recover(); r != nil {
				out.Outcome = "panic"
				out.Msg = fmt.Sprint(r)
			}
			ch <- out
		}()
		snap, err := d.LoadFromDisk(dir, o.conc, nil)
		if err != nil {
			out.Outcome = "err"
			out.Msg = err.Error()
			return
		}
		d.RefreshStore()
		items, ok := d.Scan(snap, 0)
		if !ok {
			out.Outcome = "err"
			out.Msg = "restored snapshot cannot be opened"
			return
		}
		out.Outcome = "ok"
		out.Items = items
		out.Count = snap.Count()
		snap.Close()
	}()
	select {
	case out := <-ch:
		if out.Outcome != "hang" {
			// shut the instance down (also frees everything in MM mode)
			done := make(chan struct{})
			go func() { defer func() { recover(); close(done) }(); d.Shutdown() }()
			select {
			case <-done:
				// everything the (possibly failed) restore allocated must have gone back to the allocator
				if d.Mem != nil {
					_, _, live, errs := d.Mem.Counts()
					out.Leak = live
					out.AllocErrs = len(errs)
				}
			case <-time.After(watchdog):
			}
		}
		if out.Items == nil {
			out.Items = [][2]int{}
		}
		return out
	case <-time.After(watchdog):
		buf := make([]byte, 1<<20)
		n := runtime.Stack(buf, true)
		feeder, workers := false, 0
		for _, blk := range strings.Split(string(buf[:n]), "\n\n") {
			if strings.Contains(blk, "LoadFromDisk.func") {
				workers++
			} else if strings.Contains(blk, ".LoadFromDisk(") && strings.Contains(strings.SplitN(blk, "\n", 2)[0], "chan send") {
				feeder = true
			}
		}
		// A genuine hang has no worker left (they all returned); a slow load still has one running.
		if feeder && workers == 0 {
			return loadOutcome{Outcome: "hang", Items: [][2]int{},
				Msg: "LoadFromDisk did not return within the watchdog: the feeder is blocked in a channel send"}
		}
		// still running (for example a multi-gigabyte allocation for a damaged length prefix): not a verdict
		return loadOutcome{Outcome: "slow", Items: [][2]int{}, Msg: "LoadFromDisk still running at the watchdog"}
	}
}

func bkLoadMain(args []string) int {
	fs := flag.NewFlagSet("bk-load", flag.ExitOnError)
	var o bkOpts
	o.flags(fs)
	dirs := fs.String("dirs", "", "file with one JSON object per line: {dir, tag...}")
	out := fs.String("out", "trace.ndjson", "")
	wd := fs.Int("watchdog", 10, "seconds")
	fs.Parse(args)
	t, err := tr.Create(*out)
	if err != nil {
		die("%v", err)
	}
	defer t.Close()
	f, err := os.Open(*dirs)
	if err != nil {
		die("%v", err)
	}
	rd := bufio.NewScanner(f)
	rd.Buffer(make([]byte, 1<<20), 1<<26)
	n := 0
	for rd.Scan() {
		var e map[string]interface{}
		if err := json.Unmarshal(rd.Bytes(), &e); err != nil {
			die("dirs: %v", err)
		}
		dir := e["dir"].(string)
		fmt.Fprintf(os.Stderr, "BEGIN %d %s\n", n, dir)
		res := loadDir(dir, &o, time.Duration(*wd)*time.Second)
		ev := tr.Ev{"e": "Load"}
		for k, v := range e {
			ev[k] = v
		}
		ev["outcome"], ev["msg"], ev["items"], ev["count"] = res.Outcome, res.Msg, res.Items, res.Count
		ev["leak"], ev["allocerrs"] = res.Leak, res.AllocErrs
		t.Emit(ev)
		t.Flush()
		n++
	}
	fmt.Printf("{\"loads\":%d}\n", n)
	return 0
}

// ---------------------------------------------------------------- bk-damage

type frameSpan struct{ hdr0, body0, end int } // [hdr0,body0) length prefix, [body0,end) body

func parseFrames(b []byte) (spans []frameSpan, term int) {
	off := 0
	term = -1
	for off+4 <= len(b) {
		l := int(b[off])<<24 | int(b[off+1])<<16 | int(b[off+2])<<8 | int(b[off+3])
		if l == 0 {
			term = off
			return
		}
		if off+4+l > len(b) {
			return
		}
		spans = append(spans, frameSpan{off, off + 4, off + 4 + l})
		off += 4 + l
	}
	return
}

func classify(spans []frameSpan, term, off int, manifest bool) string {
	if manifest {
		return "manifest"
	}
	for _, s := range spans {
		if off >= s.hdr0 && off < s.body0 {
			return "prefix"
		}
		if off >= s.body0 && off < s.end {
			return "body"
		}
	}
	if term >= 0 && off >= term && off < term+4 {
		return "terminator"
	}
	return "beyond"
}

func bkDamageMain(args []string) int {
	fs := flag.NewFlagSet("bk-damage", flag.ExitOnError)
	var o bkOpts
	o.flags(fs)
	dir := fs.String("dir", "", "backup directory (damaged in place, restored after every case)")
	out := fs.String("out", "trace.ndjson", "")
	part := fs.Int("part", 0, "")
	of := fs.Int("of", 1, "")
	wd := fs.Int("watchdog", 10, "seconds")
	sample := fs.Int("sample", 0, "if > 0: only every sample-th alteration offset per file (seeded phase)")
	phase := fs.Int("phase", 0, "")
	multi := fs.Int("multi", 0, "number of random multi-shard combinations")
	seed := fs.Int64("seed", 1, "")
	skip := fs.Int("skip", 0, "resume after this many cases (after a crash)")
	giant := fs.Bool("giant", false, "also alter the top byte of length prefixes to >= 2 GiB")
	fs.Parse(args)
	t, err := tr.Create(*out)
	if err != nil {
		die("%v", err)
	}
	defer t.Close()
	var files []string
	filepath.Walk(*dir, func(p string, info os.FileInfo, err error) error {
		if err == nil && !info.IsDir() {
			rel, _ := filepath.Rel(*dir, p)
			files = append(files, rel)
		}
		return nil
	})
	sort.Strings(files)
	type dcase struct {
		file, kind string
		off, pat   int
		extra      []dcase
	}
	var cases []dcase
	content := map[string][]byte{}
	for _, f := range files {
		b, err := os.ReadFile(filepath.Join(*dir, f))
		if err != nil {
			die("%v", err)
		}
		content[f] = b
		cases = append(cases, dcase{file: f, kind: "remove"})
		for n := 0; n < len(b); n++ {
			cases = append(cases, dcase{file: f, kind: "truncate", off: n})
		}
		for off := 0; off < len(b); off++ {
			if *sample > 0 && !strings.HasSuffix(f, ".json") && (off+*phase)%*sample != 0 && off > 8 && off < len(b)-8 {
				continue
			}
			sp, tm := parseFrames(b)
			msb := off == tm // most significant byte of a length prefix: patterns 1 and 2 ask for >= 2 GiB of memory
			for _, x := range sp {
				if off == x.hdr0 {
					msb = true
				}
			}
			for pat := 0; pat < 3; pat++ {
				if msb && pat > 0 && !*giant {
					continue
				}
				cases = append(cases, dcase{file: f, kind: "alter", off: off, pat: pat})
			}
			// a digit of a manifest altered to every other digit (pattern 10+d): a shard name turns into another
			// shard's name, a recorded checksum or the format version into another number
			if strings.HasSuffix(f, ".json") && b[off] >= '0' && b[off] <= '9' {
				for dgt := 0; dgt <= 9; dgt++ {
					if byte('0'+dgt) != b[off] {
						cases = append(cases, dcase{file: f, kind: "alter", off: off, pat: 10 + dgt})
					}
				}
			}
		}
	}
	// combinations damaging several shard files at once
	rnd := rand.New(rand.NewSource(*seed))
	var shardFiles []string
	for _, f := range files {
		if strings.Contains(f, "shard-") {
			shardFiles = append(shardFiles, f)
		}
	}
	for i := 0; i < *multi && len(shardFiles) > 1; i++ {
		n := 2 + rnd.Intn(len(shardFiles)-1)
		if n > 8 && rnd.Intn(2) == 0 {
			n = len(shardFiles) // every shard damaged: no worker survives
		}
		perm := rnd.Perm(len(shardFiles))[:n]
		var cs []dcase
		for _, j := range perm {
			f := shardFiles[j]
			b := content[f]
			switch rnd.Intn(3) {
			case 0:
				cs = append(cs, dcase{file: f, kind: "remove"})
			case 1:
				cs = append(cs, dcase{file: f, kind: "truncate", off: rnd.Intn(len(b) + 1)})
			default:
				if len(b) > 0 {
					cs = append(cs, dcase{file: f, kind: "alter", off: rnd.Intn(len(b)), pat: rnd.Intn(3)})
				} else {
					cs = append(cs, dcase{file: f, kind: "remove"})
				}
			}
		}
		cases = append(cases, dcase{file: cs[0].file, kind: "multi", extra: cs})
	}
	apply := func(c dcase) {
		p := filepath.Join(*dir, c.file)
		b := content[c.file]
		switch c.kind {
		case "remove":
			os.Remove(p)
		case "truncate":
			os.WriteFile(p, b[:c.off], 0644)
		case "alter":
			nb := append([]byte(nil), b...)
			switch {
			case c.pat >= 10:
				nb[c.off] = byte('0' + c.pat - 10)
			case c.pat == 0:
				nb[c.off] ^= 0x01
			case c.pat == 1:
				nb[c.off] ^= 0x80
			default:
				if nb[c.off] == 0xff {
					nb[c.off] = 0
				} else {
					nb[c.off] = 0xff
				}
			}
			os.WriteFile(p, nb, 0644)
		}
	}
	restore := func(f string) { os.WriteFile(filepath.Join(*dir, f), content[f], 0644) }
	n := 0
	for i, c := range cases {
		if i%*of != *part {
			continue
		}
		n++
		if n <= *skip {
			continue
		}
		fmt.Fprintf(os.Stderr, "BEGIN %d %s %s %d %d\n", n, c.kind, c.file, c.off, c.pat)
		var touched []string
		cs := []dcase{c}
		if c.kind == "multi" {
			cs = c.extra
		}
		var descr []string
		for _, x := range cs {
			apply(x)
			touched = append(touched, x.file)
			descr = append(descr, fmt.Sprintf("%s %s@%d/%d", x.kind, x.file, x.off, x.pat))
		}
		res := loadDir(*dir, &o, time.Duration(*wd)*time.Second)
		for _, f := range touched {
			restore(f)
		}
		spans, term := parseFrames(content[c.file])
		cls := classify(spans, term, c.off, strings.HasSuffix(c.file, ".json"))
		if c.kind == "remove" || c.kind == "multi" {
			cls = c.kind
		}
		t.Emit(tr.Ev{"e": "Damage", "case": n, "file": c.file, "kind": c.kind, "off": c.off, "pat": c.pat, "class": cls,
			"descr": descr, "conc": o.conc, "delta": o.delta,
			"outcome": res.Outcome, "msg": res.Msg, "items": res.Items, "count": res.Count, "leak": res.Leak, "allocerrs": res.AllocErrs})
		t.Flush()
		if res.Outcome == "hang" {
			// the stuck goroutines keep their file handles; carry on (they are harmless) but note it
			fmt.Fprintf(os.Stderr, "HANG %d\n", n)
		}
	}
	fmt.Printf("{\"cases\":%d}\n", n)
	return 0
}
