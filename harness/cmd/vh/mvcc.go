package main

// mvcc: sequential driver for the nitro MVCC layer (C01, C02, C06, C08 sequential part, C09, C10).
// One goroutine issues every public call; released garbage lists are held at the verif gate and
// unlinked by explicit GCUnlink steps, so that the recorded trace is totally ordered and every
// event corresponds to one action of NitroMVCC.tla.
//
//   vh mvcc -out trace.ndjson [-scripts file.ndjson | -seed S -n N -len L] [-profile p]

import (
	"bufio"
	"encoding/json"
	"flag"
	"fmt"
	"math/rand"
	"os"
	"path/filepath"
	"runtime"
	"sort"
	"sync"
	"time"

	"github.com/couchbase/nitro"
	"github.com/couchbase/nitro/skiplist"
	"verif/harness/nh"
	"verif/harness/tr"
)

func init() { register("mvcc", mvccMain) }

type mvScript struct {
	Cfg      nh.Cfg          `json:"cfg"`
	ScanRate []int           `json:"scanrates"` // refresh rates used (round robin) by the per-event scans
	NoScan   bool            `json:"noscan"`
	Ops      [][]interface{} `json:"ops"`
}

type mvIter struct {
	it   *nitro.Iterator
	sn   int
	open bool
}

type mvRun struct {
	t       *tr.W
	d       *nh.DB
	sc      *mvScript
	snaps   map[int]*nitro.Snapshot
	handles map[int]int // handles owned by the driver per snapshot
	iters   map[int]*mvIter
	nodes   map[int]*skiplist.Node // key -> node of the live item (handle from Put2/GetNode)
	nl      *nitro.NodeList        // the same nodes chained through their Link fields (only those that came from Put2)
	nscan   int
	failed  string
	stored  int // snapshot number of the last successful backup (0 = none)
	storing int // snapshot whose extra reference belongs to a StoreToDisk in progress
}

func num(x interface{}) int {
	switch v := x.(type) {
	case float64:
		return int(v)
	case int:
		return v
	case string:
		var n int
		fmt.Sscanf(v, "w%d", &n)
		return n
	}
	return 0
}

func (r *mvRun) emit(e tr.Ev, observe bool) {
	if observe {
		r.d.Observe(e)
		if !r.sc.NoScan {
			scans := [][]interface{}{}
			for sn := 1; sn <= len(r.snaps)+1; sn++ {
				s, ok := r.snaps[sn]
				if !ok || r.handles[sn] == 0 {
					continue
				}
				rate := 0
				if len(r.sc.ScanRate) > 0 {
					rate = r.sc.ScanRate[r.nscan%len(r.sc.ScanRate)]
					r.nscan++
				}
				items, ok := r.d.Scan(s, rate)
				scans = append(scans, []interface{}{sn, s.Count(), ok, items, rate})
			}
			e["scans"] = scans
		}
		its := [][]interface{}{}
		for i := 1; i <= 8; i++ {
			if x, ok := r.iters[i]; ok && x.open {
				v := x.it.Valid()
				item := [2]int{0, 0}
				if v {
					item = r.d.Decode(x.it.Get())
				}
				its = append(its, []interface{}{i, v, item})
			}
		}
		e["its"] = its
	}
	r.t.Emit(e)
}

// The driver keeps the nodes of the live items it knows in a NodeList (the public helper that chains nodes through
// their Link field, as an application's back index does) and takes a node out of the list before deleting its item.
func (r *mvRun) listAdd(n *skiplist.Node) {
	if r.nl == nil {
		r.nl = nitro.NewNodeList(nil)
	}
	r.nl.Add(n)
}

func (r *mvRun) listRemove(k int) {
	if n, ok := r.nodes[k]; ok && r.nl != nil {
		r.nl.Remove(nitro.VerifItemBytes(n.Item()))
	}
}

// stuck: a garbage list that collectDead announced was not taken (or not finished) by any collection worker within
// the gate's 30 s although the workers are idle -- a fact about the real code (stranded garbage), logged as an event.
// The instance is abandoned like a hung one.
func (r *mvRun) stuck(err error) bool {
	r.t.Emit(tr.Ev{"e": "Stuck", "msg": err.Error(), "lastgc": int(r.d.GetLastGCSn())})
	r.failed = "HANG"
	return false
}

// shutdown closes the instance and reports what the allocator has to say afterwards (user-managed memory only).
func (r *mvRun) shutdown() {
	guarded(r.t, func() {
		r.d.Shutdown()
		if r.d.Mem != nil && r.failed == "" {
			m, f, live, errs := r.d.Mem.Counts()
			if errs == nil {
				errs = []string{}
			}
			r.t.Emit(tr.Ev{"e": "End", "mallocs": m, "frees": f, "live": live, "allocerrs": errs})
		}
	})
}

// exec runs one operation; returns false if the scenario must stop.
func (r *mvRun) exec(op []interface{}) bool {
	d := r.d
	name := op[0].(string)
	switch name {
	case "Put":
		w, k, v := num(op[1]), num(op[2]), num(op[3])
		if !d.Cfg.KV {
			v = 0 // whole-item comparator: the item is the key, there is no separate value
		}
		n := d.W[w-1].Put2(d.Item(k, v))
		if n != nil {
			r.nodes[k] = n
			r.listAdd(n)
		}
		r.emit(tr.Ev{"e": "Put", "w": w, "k": k, "v": v, "ok": n != nil}, true)
	case "Delete":
		w, k := num(op[1]), num(op[2])
		r.listRemove(k)
		ok := d.W[w-1].Delete(d.Item(k, 0))
		if ok {
			delete(r.nodes, k)
		}
		r.emit(tr.Ev{"e": "Delete", "w": w, "k": k, "ok": ok}, true)
	case "Delete2":
		w, k := num(op[1]), num(op[2])
		r.listRemove(k)
		n, ok := d.W[w-1].Delete2(d.Item(k, 0))
		have, known := r.nodes[k]
		same := ok && (!known || n == have)
		if ok {
			delete(r.nodes, k)
		}
		r.emit(tr.Ev{"e": "Delete", "w": w, "k": k, "ok": ok, "api": "Delete2", "samenode": same || !ok}, true)
	case "DeleteNode": // through the node handle of the live item, if the driver has one
		w, k := num(op[1]), num(op[2])
		n, has := r.nodes[k]
		if !has {
			ok := d.W[w-1].Delete(d.Item(k, 0))
			r.emit(tr.Ev{"e": "Delete", "w": w, "k": k, "ok": ok}, true)
			break
		}
		r.listRemove(k)
		ok := d.W[w-1].DeleteNode(n)
		delete(r.nodes, k)
		r.emit(tr.Ev{"e": "Delete", "w": w, "k": k, "ok": ok, "api": "DeleteNode"}, true)
	case "GetNode":
		w, k := num(op[1]), num(op[2])
		n := d.W[w-1].GetNode(d.Item(k, 0))
		item := [2]int{0, 0}
		if n != nil {
			item = d.Decode(nitro.VerifItemBytes(n.Item()))
			r.nodes[k] = n
		}
		r.emit(tr.Ev{"e": "GetNode", "w": w, "k": k, "found": n != nil, "item": item}, true)
	case "NewSnapshot":
		s, err := d.NewSnapshot()
		if err != nil {
			r.failed = "NewSnapshot: " + err.Error()
			return false
		}
		sn, _, _ := nitro.VerifSnapInfo(s)
		r.snaps[int(sn)] = s
		r.handles[int(sn)] = 1
		r.emit(tr.Ev{"e": "NewSnapshot", "sn": int(sn), "count": s.Count()}, true)
	case "Open":
		sn := num(op[1])
		s := r.snaps[sn]
		if s == nil {
			return true
		}
		ok := s.Open()
		if ok {
			r.handles[sn]++
		}
		r.emit(tr.Ev{"e": "Open", "sn": sn, "ok": ok}, true)
	case "CloseSnap":
		sn := num(op[1])
		s := r.snaps[sn]
		if s == nil || r.handles[sn] == 0 || (r.storing == sn && r.handles[sn] <= 1) {
			return true
		}
		s.Close()
		r.handles[sn]--
		picked, err := d.Picked()
		if err != nil {
			return r.stuck(err)
		}
		r.emit(tr.Ev{"e": "CloseSnap", "sn": sn, "picked": picked}, true)
	case "CloseAll":
		// every handle the driver holds (iterators keep theirs): after this only iterators pin garbage
		sns := []int{}
		for sn, n := range r.handles {
			if n > 0 {
				sns = append(sns, sn)
			}
		}
		sort.Ints(sns)
		for _, sn := range sns {
			for n := r.handles[sn]; n > 0; n-- {
				if !r.exec([]interface{}{"CloseSnap", sn}) {
					return false
				}
			}
		}
	case "GC":
		d.GC()
		picked, err := d.Picked()
		if err != nil {
			return r.stuck(err)
		}
		r.emit(tr.Ev{"e": "GC", "picked": picked}, true)
	case "GCUnlink":
		sn := num(op[1])
		if err := d.Unlink(sn); err != nil {
			r.emit(tr.Ev{"e": "GCUnlink", "sn": sn, "skipped": true, "why": err.Error()}, true)
			break
		}
		picked, err := d.Picked()
		if err != nil {
			return r.stuck(err)
		}
		r.emit(tr.Ev{"e": "GCUnlink", "sn": sn, "skipped": false, "picked": picked}, true)
	case "IterNew":
		i, sn, rate := num(op[1]), num(op[2]), num(op[3])
		s := r.snaps[sn]
		if s == nil || (r.iters[i] != nil && r.iters[i].open) {
			return true
		}
		it := s.NewIterator()
		if it != nil {
			it.SetRefreshRate(rate)
			r.iters[i] = &mvIter{it: it, sn: sn, open: true}
		}
		r.emit(tr.Ev{"e": "IterNew", "i": i, "sn": sn, "rate": rate, "ok": it != nil}, true)
	case "IterSetRate":
		i, rate := num(op[1]), num(op[2])
		if x := r.iters[i]; x != nil && x.open {
			x.it.SetRefreshRate(rate)
			r.emit(tr.Ev{"e": "IterSetRate", "i": i, "rate": rate}, true)
		}
	case "IterSeek", "IterSeekFirst", "IterNext", "IterRefresh":
		i := num(op[1])
		x := r.iters[i]
		if x == nil || !x.open {
			return true
		}
		e := tr.Ev{"e": name, "i": i}
		switch name {
		case "IterSeek":
			k := num(op[2])
			e["k"] = k
			x.it.Seek(d.Item(k, 0))
		case "IterSeekFirst":
			x.it.SeekFirst()
		case "IterNext":
			if !x.it.Valid() { // never step an exhausted iterator (API misuse); the spec sees the skip
				e["skipped"] = true
				break
			}
			x.it.Next()
		case "IterRefresh":
			x.it.Refresh()
		}
		v := x.it.Valid()
		e["valid"] = v
		item := [2]int{0, 0}
		if v {
			item = d.Decode(x.it.Get())
		}
		e["item"] = item
		r.emit(e, true)
	case "IterClose":
		i := num(op[1])
		x := r.iters[i]
		if x == nil || !x.open {
			return true
		}
		x.it.Close()
		x.open = false
		picked, err := d.Picked()
		if err != nil {
			return r.stuck(err)
		}
		r.emit(tr.Ev{"e": "IterClose", "i": i, "picked": picked}, true)
	case "Visit":
		sn, shards, conc, errAt := num(op[1]), num(op[2]), num(op[3]), num(op[4])
		s := r.snaps[sn]
		if s == nil || r.handles[sn] == 0 {
			return true
		}
		res := make([][][2]int, shards+1)
		var calls int
		var mu = make(chan struct{}, 1)
		mu <- struct{}{}
		cb := func(itm *nitro.Item, shard int) error {
			<-mu
			defer func() { mu <- struct{}{} }()
			calls++
			if errAt > 0 && calls == errAt {
				return fmt.Errorf("injected callback error")
			}
			if shard < 0 || shard >= len(res) {
				res = append(res, make([][][2]int, shard+1-len(res))...)
			}
			res[shard] = append(res[shard], d.Decode(itm.Bytes()))
			return nil
		}
		done := make(chan error, 1)
		go func() { done <- d.Visitor(s, cb, shards, conc) }()
		var err error
		hang := false
		// watchdog: a hang is "no callback for 30 s and the call has not returned" (a slow machine still makes progress)
		lastCalls, idle := -1, 0
	wait:
		for {
			select {
			case err = <-done:
				break wait
			case <-time.After(5 * time.Second):
				<-mu
				c := calls
				mu <- struct{}{}
				if c != lastCalls {
					lastCalls, idle = c, 0
				} else if idle++; idle >= 6 {
					hang = true
					buf := make([]byte, 1<<20)
					n := runtime.Stack(buf, true)
					os.WriteFile(*mvHangDump, buf[:n], 0644)
					break wait
				}
			}
		}
		out := make([][][2]int, len(res))
		for i := range res {
			out[i] = res[i]
			if out[i] == nil {
				out[i] = [][2]int{}
			}
		}
		r.emit(tr.Ev{"e": "Visit", "sn": sn, "shards": shards, "conc": conc, "errat": errAt, "calls": calls,
			"res": out, "err": err != nil, "hang": hang}, !hang)
		if hang {
			r.failed = "HANG"
			return false
		}
	case "Store":
		// ["Store", sn, conc, [busy ops...]]: StoreToDisk of an open snapshot; the busy ops run inside the item
		// callback of the first scanned item, i.e. while the backup is scanning (other shards keep scanning)
		sn, conc := num(op[1]), num(op[2])
		s := r.snaps[sn]
		if s == nil || r.handles[sn] == 0 {
			return true
		}
		var busy [][]interface{}
		if len(op) > 3 {
			if l, ok := op[3].([]interface{}); ok {
				for _, b := range l {
					busy = append(busy, b.([]interface{}))
				}
			}
		}
		if !r.drainPicked() {
			return false
		}
		// StoreToDisk consumes one handle.  Usually the driver opens an extra one for it; with "transfer" it hands over its
		// ONLY handle, so that the backup's own Close (in delta mode: before the scan) is the one that retires the snapshot
		// and starts the collection of whatever waits behind it.
		transfer := len(op) > 4 && op[4] == true && r.handles[sn] == 1 && !d.Cfg.Hold // (held lists would park the workers the delta handshake needs)
		if !transfer {
			if !s.Open() {
				return true
			}
			r.handles[sn]++
			r.emit(tr.Ev{"e": "Open", "sn": sn, "ok": true}, true)
		}
		r.emit(tr.Ev{"e": "StoreBegin", "sn": sn, "delta": d.Cfg.Delta}, false)
		os.RemoveAll(*mvBackupDir)
		var once sync.Once
		earlyClosed := false
		r.storing = sn
		closeEv := func() {
			r.storing = 0
			r.handles[sn]--
			picked, _ := d.Picked()
			r.emit(tr.Ev{"e": "CloseSnap", "sn": sn, "picked": picked, "by": "StoreToDisk"}, true)
		}
		cb := func(*nitro.ItemEntry) {
			once.Do(func() {
				if d.Cfg.Delta {
					earlyClosed = true
					closeEv()
				}
				for _, b := range busy {
					if !r.exec(b) {
						break
					}
				}
				r.drainPicked()
			})
		}
		err := d.StoreToDisk(*mvBackupDir, s, conc, cb)
		if !earlyClosed {
			closeEv()
		}
		r.drainPicked()
		r.stored = sn
		ev := tr.Ev{"e": "Store", "sn": sn, "ok": err == nil, "conc": conc, "main": [][2]int{}, "dfile": [][2]int{}, "readerr": ""}
		if err == nil {
			// what actually went into the shard files (in shard order) and into the delta files
			main, e1 := readBackupFiles(d, filepath.Join(*mvBackupDir, "data"))
			ev["main"] = main
			if e1 != nil {
				ev["readerr"] = e1.Error()
			}
			if d.Cfg.Delta {
				df, e2 := readBackupFiles(d, filepath.Join(*mvBackupDir, "delta"))
				ev["dfile"] = df
				if e2 != nil {
					ev["readerr"] = e2.Error()
				}
			}
		}
		r.emit(ev, true)
	case "Restore":
		// LoadFromDisk of the last backup into a fresh instance with the same configuration; the driver then
		// continues on the restored instance
		if r.stored == 0 {
			return true
		}
		conc := num(op[1])
		nd := nh.Open(d.Cfg)
		snap, err := nd.LoadFromDisk(*mvBackupDir, conc, nil)
		e := tr.Ev{"e": "Load", "sn": r.stored, "ok": err == nil, "conc": conc}
		if err != nil {
			e["err"] = err.Error()
			e["ritems"], e["rcount"] = [][2]int{}, 0
			r.t.Emit(e)
			nd.Shutdown()
			break
		}
		nd.RefreshStore()
		items, _ := nd.Scan(snap, 0)
		e["ritems"], e["rcount"] = items, snap.Count()
		// leave the old instance in an orderly way
		for _, x := range r.iters {
			if x.open {
				x.it.Close()
				x.open = false
			}
		}
		for sn2, n := range r.handles {
			for ; n > 0; n-- {
				r.snaps[sn2].Close()
			}
		}
		d.DrainGate()
		d.Shutdown()
		r.d = nd
		r.snaps = map[int]*nitro.Snapshot{1: snap}
		r.handles = map[int]int{1: 1}
		r.iters = map[int]*mvIter{}
		r.nodes = map[int]*skiplist.Node{}
		r.nl = nil
		r.stored = 0
		r.emit(e, true)
	default:
		die("mvcc: unknown op %q", name)
	}
	return true
}

// drainPicked releases every garbage list held at the gate (logging each as a GCUnlink step).
func (r *mvRun) drainPicked() bool {
	for {
		picked, err := r.d.Picked()
		if err != nil {
			return r.stuck(err)
		}
		if len(picked) == 0 {
			return true
		}
		if !r.exec([]interface{}{"GCUnlink", picked[0]}) {
			return false
		}
	}
}

var mvBackupDir = new(string)

var mvHangDump = new(string)

func mvRunScenario(t *tr.W, sc *mvScript) string {
	if sc.Cfg.Writers < 1 {
		sc.Cfg.Writers = 1
	}
	d := nh.Open(sc.Cfg)
	r := &mvRun{t: t, d: d, sc: sc, snaps: map[int]*nitro.Snapshot{}, handles: map[int]int{},
		iters: map[int]*mvIter{}, nodes: map[int]*skiplist.Node{}}
	t.Emit(tr.Ev{"e": "Init", "cfg": sc.Cfg})
	for _, op := range sc.Ops {
		ok := true
		if guarded(t, func() { ok = r.exec(op) }) {
			return "" // the Panic event carries the verdict; the instance is abandoned
		}
		if !ok {
			break
		}
	}
	if r.failed == "HANG" {
		return r.failed // leave the stuck instance alone
	}
	// orderly shutdown: close iterators and handles, drain the gate, close the instance
	for _, x := range r.iters {
		if x.open {
			x.it.Close()
		}
	}
	for sn, n := range r.handles {
		for ; n > 0; n-- {
			r.snaps[sn].Close()
		}
	}
	if err := r.d.DrainGate(); err != nil && r.failed == "" {
		r.failed = err.Error()
	}
	r.shutdown()
	return r.failed
}

// ---------------------------------------------------------------- random scenarios

type mvGen struct {
	rnd     *rand.Rand
	nkeys   int
	nvals   int
	nw      int
	maxOpen int
	prof    string
}

// mvRandom generates and executes a scenario on the fly (the generator only looks at results the
// real code returned, to keep calls well-formed; it is not an oracle).
func mvRandom(t *tr.W, g *mvGen, length int) string {
	rnd := g.rnd
	sc := &mvScript{}
	sc.Cfg = nh.Cfg{KV: rnd.Intn(2) == 0, MM: rnd.Intn(2) == 0, Writers: 1 + rnd.Intn(g.nw), Hold: rnd.Intn(3) > 0}
	// weights: gcunlink, iterator, put/delete, getnode, newsnapshot, closesnap, open, gc, visit
	wt := [9]int{12, 20, 28, 6, 12, 10, 3, 2, 7}
	delBias := 2 // deletes out of 5 writes
	switch g.prof {
	case "snap":
		wt = [9]int{12, 8, 36, 4, 16, 14, 4, 2, 4}
		sc.ScanRate = [][]int{{0}, {1}, {0, 1, 2, 5}, {3}}[rnd.Intn(4)]
		sc.Cfg.Hold = rnd.Intn(4) > 0
	case "gc":
		wt = [9]int{14, 4, 40, 4, 16, 16, 2, 4, 0}
		sc.Cfg.Writers = 2 + rnd.Intn(2)
		sc.Cfg.Hold = rnd.Intn(4) > 0
		delBias = 3
	case "iter":
		wt = [9]int{10, 50, 20, 2, 8, 6, 1, 1, 2}
		sc.NoScan = rnd.Intn(2) == 0
	case "visit":
		wt = [9]int{10, 4, 34, 2, 12, 8, 2, 2, 26}
	case "visitbig":
		wt = [9]int{6, 0, 60, 0, 8, 5, 0, 1, 20}
		sc.NoScan = true
		delBias = 1
	case "backup":
		wt = [9]int{10, 6, 40, 2, 14, 10, 2, 2, 2}
		sc.Cfg.Delta = rnd.Intn(2) == 0
		sc.Cfg.Hold = rnd.Intn(2) == 0
	}
	if g.prof == "mixed" && rnd.Intn(2) == 0 {
		sc.ScanRate = [][]int{{0}, {1}, {0, 1, 2, 5}, {3}}[rnd.Intn(4)]
	}
	cum := [9]int{}
	tot := 0
	for i, x := range wt {
		tot += x
		cum[i] = tot
	}
	d := nh.Open(sc.Cfg)
	r := &mvRun{t: t, d: d, sc: sc, snaps: map[int]*nitro.Snapshot{}, handles: map[int]int{},
		iters: map[int]*mvIter{}, nodes: map[int]*skiplist.Node{}}
	t.Emit(tr.Ev{"e": "Init", "cfg": sc.Cfg})
	nk := 2 + rnd.Intn(g.nkeys-1)
	if g.prof == "visitbig" {
		nk = g.nkeys/2 + rnd.Intn(g.nkeys/2)
	}
	F := func(x ...interface{}) []interface{} { return x }
	for step := 0; step < length; step++ {
		var open []int
		for sn, n := range r.handles {
			if n > 0 {
				open = append(open, sn)
			}
		}
		sortInts(open)
		picked, _ := r.d.Picked()
		w := 1 + rnd.Intn(sc.Cfg.Writers)
		k := 1 + rnd.Intn(nk)
		var op []interface{}
		x := rnd.Intn(tot)
		cat := 0
		for cat < 8 && x >= cum[cat] {
			cat++
		}
		if g.prof == "visitbig" && step < length/2 && rnd.Intn(4) > 0 {
			cat = 2 // load phase
		}
		if g.prof == "backup" && step > 10 && rnd.Intn(12) == 0 {
			cat = 9
		}
		put := func() []interface{} { return F("Put", w, k, 1+rnd.Intn(g.nvals)) }
		switch cat {
		case 0:
			if len(picked) > 0 {
				op = F("GCUnlink", picked[rnd.Intn(len(picked))])
			} else {
				op = put()
			}
		case 1:
			if len(r.snaps) == 0 {
				op = F("NewSnapshot")
				break
			}
			i := 1 + rnd.Intn(2)
			it := r.iters[i]
			if it == nil || !it.open {
				// any snapshot ever created, also retired ones (NewIterator must return nil)
				sn := 1 + rnd.Intn(len(r.snaps))
				if len(open) > 0 && rnd.Intn(8) > 0 {
					sn = open[rnd.Intn(len(open))]
				}
				op = F("IterNew", i, sn, []int{0, 0, 1, 2, 3, 7}[rnd.Intn(6)])
			} else {
				switch y := rnd.Intn(12); {
				case y < 2:
					op = F("IterSeek", i, rnd.Intn(nk+2))
				case y < 3:
					op = F("IterSeekFirst", i)
				case y < 8:
					if it.it.Valid() {
						op = F("IterNext", i)
					} else {
						op = F("IterSeek", i, rnd.Intn(nk+2))
					}
				case y < 10:
					op = F("IterRefresh", i)
				case y < 11:
					op = F("IterSetRate", i, []int{0, 1, 2, 5}[rnd.Intn(4)])
				default:
					op = F("IterClose", i)
				}
			}
		case 2:
			if rnd.Intn(5) >= delBias {
				op = put()
			} else {
				op = F([]string{"Delete", "Delete2", "DeleteNode"}[rnd.Intn(3)], w, k)
			}
		case 3:
			op = F("GetNode", w, k)
		case 4:
			if len(open) >= g.maxOpen || len(r.snaps) >= 56 {
				op = F("CloseSnap", open[rnd.Intn(len(open))])
			} else {
				op = F("NewSnapshot")
			}
		case 5:
			if len(open) > 0 {
				op = F("CloseSnap", open[rnd.Intn(len(open))])
			} else {
				op = put()
			}
		case 6:
			if len(r.snaps) > 0 {
				op = F("Open", 1+rnd.Intn(len(r.snaps)))
			} else {
				op = put()
			}
		case 7:
			op = F("GC")
		case 9: // backup of an open snapshot (latest or older), possibly with mutation + GC while it scans; then restore
			if len(open) == 0 {
				op = F("NewSnapshot")
				break
			}
			if r.stored != 0 && rnd.Intn(2) == 0 {
				op = F("Restore", []int{1, 2, 8}[rnd.Intn(3)])
				break
			}
			var busy []interface{}
			if rnd.Intn(3) == 0 {
				// sweep: most of the store is deleted, every snapshot closed and the garbage collected while the scan
				// stands on its first item (with delta interleaving the items must then come from the delta files)
				for kk := 1; kk <= nk; kk++ {
					if rnd.Intn(4) != 0 {
						busy = append(busy, []interface{}{"Delete", w, kk})
					}
				}
				busy = append(busy, []interface{}{"NewSnapshot"}, []interface{}{"CloseAll"})
			}
			for j := rnd.Intn(6); j > 0; j-- {
				kk := 1 + rnd.Intn(nk)
				switch rnd.Intn(5) {
				case 0, 1:
					busy = append(busy, []interface{}{"Delete", w, kk})
				case 2:
					busy = append(busy, []interface{}{"Put", w, kk, 1 + rnd.Intn(g.nvals)})
				case 3:
					busy = append(busy, []interface{}{"NewSnapshot"})
				default:
					busy = append(busy, []interface{}{"CloseSnap", open[rnd.Intn(len(open))]})
				}
			}
			op = F("Store", open[rnd.Intn(len(open))], []int{1, 2, 8}[rnd.Intn(3)], busy, rnd.Intn(2) == 0)
		default:
			if len(open) > 0 {
				shards := []int{1, 2, 3, 4, 8, 16, 64, 2 * nk}[rnd.Intn(8)]
				errAt := 0
				if rnd.Intn(4) == 0 {
					errAt = 1 + rnd.Intn(nk)
				}
				op = F("Visit", open[rnd.Intn(len(open))], shards, []int{1, 2, 8}[rnd.Intn(3)], errAt)
			} else {
				op = F("NewSnapshot")
			}
		}
		ok := true
		if guarded(t, func() { ok = r.exec(op) }) {
			return ""
		}
		if !ok {
			break
		}
	}
	if r.failed == "HANG" {
		return r.failed
	}
	for _, x := range r.iters {
		if x.open {
			x.it.Close()
		}
	}
	for sn, n := range r.handles {
		for ; n > 0; n-- {
			r.snaps[sn].Close()
		}
	}
	if err := r.d.DrainGate(); err != nil && r.failed == "" {
		r.failed = err.Error()
	}
	r.shutdown()
	return r.failed
}

func sortInts(a []int) {
	for i := 1; i < len(a); i++ {
		for j := i; j > 0 && a[j] < a[j-1]; j-- {
			a[j], a[j-1] = a[j-1], a[j]
		}
	}
}

func mvccMain(args []string) int {
	fs := flag.NewFlagSet("mvcc", flag.ExitOnError)
	out := fs.String("out", "trace.ndjson", "")
	scripts := fs.String("scripts", "", "")
	seed := fs.Int64("seed", 1, "")
	n := fs.Int("n", 50, "")
	ln := fs.Int("len", 120, "")
	nkeys := fs.Int("keys", 8, "")
	prof := fs.String("profile", "mixed", "mixed | iter")
	hang := fs.String("hangdump", "hang.txt", "")
	bdir := fs.String("backupdir", "mvcc-backup", "")
	fs.Parse(args)
	*mvHangDump = *hang
	*mvBackupDir = *bdir
	t, err := tr.Create(*out)
	if err != nil {
		die("%v", err)
	}
	defer t.Close()
	nsc := 0
	var failed []string
	if *scripts != "" {
		f, err := os.Open(*scripts)
		if err != nil {
			die("%v", err)
		}
		defer f.Close()
		rd := bufio.NewScanner(f)
		rd.Buffer(make([]byte, 1<<20), 1<<26)
		for rd.Scan() {
			var sc mvScript
			if err := json.Unmarshal(rd.Bytes(), &sc); err != nil {
				die("script: %v", err)
			}
			if msg := mvRunScenario(t, &sc); msg != "" {
				failed = append(failed, fmt.Sprintf("scenario %d: %s", nsc+1, msg))
				if msg == "HANG" {
					break
				}
			}
			nsc++
			t.Flush() // a crash inside a library goroutine must not lose the scenarios already completed
		}
	} else {
		rnd := rand.New(rand.NewSource(*seed))
		g := &mvGen{rnd: rnd, nkeys: *nkeys, nvals: 3, nw: 3, maxOpen: 5, prof: *prof}
		for i := 0; i < *n; i++ {
			if msg := mvRandom(t, g, *ln); msg != "" {
				failed = append(failed, fmt.Sprintf("scenario %d: %s", nsc+1, msg))
				if msg == "HANG" {
					break
				}
			}
			nsc++
			t.Flush()
		}
	}
	t.Flush()
	js, _ := json.Marshal(map[string]interface{}{"scenarios": nsc, "events": t.Count(), "failed": failed})
	fmt.Println(string(js))
	return 0
}

// readBackupFiles decodes the files listed in dir/files.json, in that order, with the instance's file reader.
func readBackupFiles(d *nh.DB, dir string) ([][2]int, error) {
	out := [][2]int{}
	bs, err := os.ReadFile(filepath.Join(dir, "files.json"))
	if err != nil {
		return out, err
	}
	var files []string
	if err := json.Unmarshal(bs, &files); err != nil {
		return out, err
	}
	// decoded with an instance of its own (Go-managed memory): the reader allocates items from its instance's allocator
	dec := nitro.New()
	defer dec.Close()
	for _, f := range files {
		rd := dec.VerifNewFileReader(1)
		if err := rd.Open(filepath.Join(dir, f)); err != nil {
			return out, err
		}
		for {
			itm, err := rd.ReadItem()
			if err != nil {
				rd.Close()
				return out, err
			}
			if itm == nil {
				break
			}
			out = append(out, d.Decode(itm.Bytes()))
		}
		rd.Close()
	}
	return out, nil
}
