package main

// builder / merge: drivers for the bulk builder and the merge iterator (property C18).
//
//   vh builder -out trace.ndjson [-scripts f | -seed S -n N]
//   vh merge   -out trace.ndjson [-scripts f | -seed S -n N -len L]

import (
	"bufio"
	"encoding/json"
	"flag"
	"fmt"
	"math/rand"
	"os"
	"sync"
	"unsafe"

	"github.com/couchbase/nitro/skiplist"
	"verif/harness/nh"
	"verif/harness/tr"
)

func init() { register("builder", builderMain); register("merge", mergeMain) }

type bScript struct {
	Segs  []int           `json:"segs"`  // items per segment
	Order []int           `json:"order"` // optional: segment index (1-based) of each successive Add
	Conc  bool            `json:"conc"`  // fill segments concurrently
	MM    bool            `json:"mm"`
	Ops   [][]interface{} `json:"ops"` // after assembly: ["Insert",x] ["Delete",x] ["Lookup",x]
}

func slWalk(s *skiplist.Skiplist, item func(unsafe.Pointer) int) (chains [][]int, marks int, tailok []bool, walkmem int64) {
	top := s.VerifLevel()
	for l := 0; l <= top; l++ {
		ch := []int{}
		n, _ := skiplist.VerifNext(s.HeadNode(), l)
		ok := false
		for steps := 0; n != nil && steps < 1000000; steps++ {
			if n == s.TailNode() {
				ok = true
				break
			}
			next, marked := skiplist.VerifNext(n, l)
			if marked {
				marks++
			}
			ch = append(ch, item(n.Item()))
			if l == 0 {
				walkmem += int64(s.Size(n))
			}
			n = next
		}
		chains = append(chains, ch)
		tailok = append(tailok, ok)
	}
	return
}

func slObs(s *skiplist.Skiplist, e tr.Ev, item func(unsafe.Pointer) int) {
	chains, marks, tailok, walkmem := slWalk(s, item)
	st := s.GetStats()
	dist := []int64{}
	for l := 0; l <= s.VerifLevel(); l++ {
		dist = append(dist, st.NodeDistribution[l])
	}
	var above int64
	for l := s.VerifLevel() + 1; l <= skiplist.MaxLevel; l++ {
		above += st.NodeDistribution[l]
	}
	e["chains"] = chains
	e["marks"] = marks
	e["tailok"] = tailok
	e["nodes"] = st.NodeCount
	e["dist"] = dist
	e["distabove"] = above
	e["softdel"] = st.SoftDeletes
	e["statmem"] = st.Memory
	e["walkmem"] = walkmem
	e["allocs"] = st.NodeAllocs
	e["frees"] = st.NodeFrees
}

func builderRun(t *tr.W, sc *bScript) {
	cfg := skiplist.DefaultConfig()
	var al *nh.Alloc
	if sc.MM {
		al = nh.NewAlloc()
		cfg.UseMemoryMgmt = true
		cfg.Malloc = al.Malloc
		cfg.Free = al.Free
		cfg.BarrierDestructor = func(unsafe.Pointer) {}
	}
	cfg.SetItemSizeFunc(func(unsafe.Pointer) int { return 8 })
	b := skiplist.NewBuilderWithConfig(cfg)
	b.SetItemSizeFunc(func(unsafe.Pointer) int { return 8 })
	t.Emit(tr.Ev{"e": "BInit", "segs": sc.Segs, "conc": sc.Conc, "mm": sc.MM})
	item := func(p unsafe.Pointer) int { return skiplist.IntFromItem(p) }
	var mu sync.Mutex
	segs := make([]*skiplist.Segment, len(sc.Segs))
	base := make([]int, len(sc.Segs))
	next := 1
	for i, n := range sc.Segs {
		base[i] = next
		next += n
		segs[i] = b.NewSegment()
		si := i + 1
		segs[i].SetNodeCallback(func(n *skiplist.Node) {
			mu.Lock()
			t.Emit(tr.Ev{"e": "Add", "s": si, "item": item(n.Item()), "lvl": n.Level()})
			mu.Unlock()
		})
	}
	// keep every item reachable: in user-managed mode the nodes live outside the Go heap's view
	keep := make([][]unsafe.Pointer, len(sc.Segs)+1)
	mk := func(slot, x int) unsafe.Pointer {
		p := skiplist.NewIntKeyItem(x)
		keep[slot] = append(keep[slot], p)
		return p
	}
	defer func() { _ = len(keep) }()
	fill := func(i int) {
		for j := 0; j < sc.Segs[i]; j++ {
			segs[i].Add(mk(i, base[i]+j))
		}
	}
	if len(sc.Order) > 0 {
		done := make([]int, len(segs))
		for _, si := range sc.Order {
			i := si - 1
			segs[i].Add(mk(i, base[i]+done[i]))
			done[i]++
		}
	} else if sc.Conc {
		var wg sync.WaitGroup
		for i := range segs {
			wg.Add(1)
			go func(i int) { defer wg.Done(); fill(i) }(i)
		}
		wg.Wait()
	} else {
		for i := range segs {
			fill(i)
		}
	}
	s := b.Assemble(segs...)
	e := tr.Ev{"e": "Assemble"}
	slObs(s, e, item)
	t.Emit(e)
	buf := s.MakeBuf()
	for _, op := range sc.Ops {
		x := num(op[1])
		e := tr.Ev{"e": op[0], "x": x}
		switch op[0].(string) {
		case "Insert":
			e["ok"] = s.Insert(mk(len(sc.Segs), x), skiplist.CompareInt, buf, &s.Stats)
		case "Delete":
			e["ok"] = s.Delete(skiplist.NewIntKeyItem(x), skiplist.CompareInt, buf, &s.Stats)
		case "Lookup":
			_, _, found := s.Lookup(skiplist.NewIntKeyItem(x), skiplist.CompareInt, buf, &s.Stats)
			e["ok"] = found
		}
		it := s.NewIterator(skiplist.CompareInt, buf)
		scan := []int{}
		for it.SeekFirst(); it.Valid() && len(scan) < 100000; it.Next() {
			scan = append(scan, item(it.Get()))
		}
		it.Close()
		e["scan"] = scan
		slObs(s, e, item)
		t.Emit(e)
	}
}

func builderMain(args []string) int {
	fs := flag.NewFlagSet("builder", flag.ExitOnError)
	out := fs.String("out", "trace.ndjson", "")
	scripts := fs.String("scripts", "", "")
	seed := fs.Int64("seed", 1, "")
	n := fs.Int("n", 100, "")
	fs.Parse(args)
	t, err := tr.Create(*out)
	if err != nil {
		die("%v", err)
	}
	defer t.Close()
	nsc := 0
	if *scripts != "" {
		f, err := os.Open(*scripts)
		if err != nil {
			die("%v", err)
		}
		rd := bufio.NewScanner(f)
		rd.Buffer(make([]byte, 1<<20), 1<<26)
		for rd.Scan() {
			var sc bScript
			if err := json.Unmarshal(rd.Bytes(), &sc); err != nil {
				die("script: %v", err)
			}
			guarded(t, func() { builderRun(t, &sc) })
			nsc++
		}
	} else {
		rnd := rand.New(rand.NewSource(*seed))
		for i := 0; i < *n; i++ {
			sc := &bScript{Conc: rnd.Intn(2) == 0, MM: rnd.Intn(2) == 0}
			ns := 1 + rnd.Intn(6)
			total := 0
			for j := 0; j < ns; j++ {
				c := 0
				if rnd.Intn(3) > 0 { // empty segments are common: leading, middle, trailing
					c = 1 + rnd.Intn(12)
				}
				if total+c > 44 {
					c = 0
				}
				total += c
				sc.Segs = append(sc.Segs, c)
			}
			for j := 0; j < 12; j++ {
				x := rnd.Intn(total + 3)
				sc.Ops = append(sc.Ops, []interface{}{[]string{"Insert", "Delete", "Lookup"}[rnd.Intn(3)], x})
			}
			guarded(t, func() { builderRun(t, sc) })
			nsc++
		}
	}
	fmt.Printf("{\"scenarios\":%d,\"events\":%d}\n", nsc, t.Count())
	return 0
}

// ---------------------------------------------------------------- merge iterator

type mScript struct {
	Lists [][]int         `json:"lists"`
	Ops   [][]interface{} `json:"ops"` // ["SeekFirst"] ["Seek",x] ["Next"]
}

func mergeRun(t *tr.W, sc *mScript) {
	var its []*skiplist.Iterator
	for _, l := range sc.Lists {
		s := skiplist.New()
		buf := s.MakeBuf()
		for _, x := range l {
			s.Insert(skiplist.NewIntKeyItem(x), skiplist.CompareInt, buf, &s.Stats)
		}
		its = append(its, s.NewIterator(skiplist.CompareInt, s.MakeBuf()))
	}
	lists := sc.Lists
	for i := range lists {
		if lists[i] == nil {
			lists[i] = []int{}
		}
	}
	t.Emit(tr.Ev{"e": "MInit", "lists": lists})
	mit := skiplist.NewMergeIterator(its)
	valid := false
	for _, op := range sc.Ops {
		name := op[0].(string)
		e := tr.Ev{"e": name}
		crashed := false
		func() {
			defer func() {
				if r := recover(); r != nil {
					crashed = true
					e["panic"] = fmt.Sprint(r)
				}
			}()
			switch name {
			case "SeekFirst":
				mit.SeekFirst()
			case "Seek":
				x := num(op[1])
				e["x"] = x
				e["found"] = mit.Seek(skiplist.NewIntKeyItem(x))
			case "Next":
				if !valid {
					e["skipped"] = true
					return
				}
				mit.Next()
			}
			valid = mit.Valid()
			e["valid"] = valid
			e["item"] = 0
			if valid {
				e["item"] = skiplist.IntFromItem(mit.Get())
			}
		}()
		e["crashed"] = crashed
		t.Emit(e)
		if crashed {
			break
		}
	}
	for _, it := range its {
		it.Close()
	}
}

func mergeMain(args []string) int {
	fs := flag.NewFlagSet("merge", flag.ExitOnError)
	out := fs.String("out", "trace.ndjson", "")
	scripts := fs.String("scripts", "", "")
	seed := fs.Int64("seed", 1, "")
	n := fs.Int("n", 100, "")
	ln := fs.Int("len", 40, "")
	fs.Parse(args)
	t, err := tr.Create(*out)
	if err != nil {
		die("%v", err)
	}
	defer t.Close()
	nsc := 0
	if *scripts != "" {
		f, err := os.Open(*scripts)
		if err != nil {
			die("%v", err)
		}
		rd := bufio.NewScanner(f)
		rd.Buffer(make([]byte, 1<<20), 1<<26)
		for rd.Scan() {
			var sc mScript
			if err := json.Unmarshal(rd.Bytes(), &sc); err != nil {
				die("script: %v", err)
			}
			guarded(t, func() { mergeRun(t, &sc) })
			nsc++
		}
	} else {
		rnd := rand.New(rand.NewSource(*seed))
		for i := 0; i < *n; i++ {
			sc := &mScript{}
			nl := 1 + rnd.Intn(4)
			maxv := 4 + rnd.Intn(20)
			for j := 0; j < nl; j++ {
				l := []int{}
				if rnd.Intn(5) > 0 {
					for x := 1; x <= maxv; x++ {
						if rnd.Intn(3) == 0 {
							l = append(l, x)
						}
					}
				}
				sc.Lists = append(sc.Lists, l)
			}
			for j := 0; j < *ln; j++ {
				switch y := rnd.Intn(10); {
				case y < 1:
					sc.Ops = append(sc.Ops, []interface{}{"SeekFirst"})
				case y < 3:
					sc.Ops = append(sc.Ops, []interface{}{"Seek", rnd.Intn(maxv + 3)})
				default:
					sc.Ops = append(sc.Ops, []interface{}{"Next"})
				}
			}
			guarded(t, func() { mergeRun(t, sc) })
			nsc++
		}
	}
	fmt.Printf("{\"scenarios\":%d,\"events\":%d}\n", nsc, t.Count())
	return 0
}
