package main

// nw: nitro writers on ONE contended key under the gate scheduler -- step conformance with NitroWriters.tla.
//
//   vh nw -out trace.ndjson [-scripts f | -seed S -n N]
//
// Script lines: {"nw":2,"old":true,"procs":{"1":[["put"],["del"]],"2":[["del"]]},"sched":["1","2","fw",...],"seed":7}
// Processes "1".."n" are writers (Put2 / Delete2 on the key), "fw" is the free worker (held at its hook, one
// list per release).  The nitro yield points split Delete2 exactly like the model's labels
// (N1 entry, N3 flush, N4 deadSn CAS, N5 append), Put2 at P1 (before the insert).
// Events: one "A" event per model action, in the order the real code performed them, then one "Obs"
// event per gate step with the real node fields, garbage lists, allocator verdicts.

import (
	"bufio"
	"encoding/json"
	"flag"
	"fmt"
	"math/rand"
	"os"
	"sort"
	"strconv"
	"sync"
	"sync/atomic"
	"time"
	"unsafe"

	"github.com/couchbase/nitro"
	"github.com/couchbase/nitro/skiplist"
	"verif/harness/gate"
	"verif/harness/nh"
	"verif/harness/tr"
)

func init() { register("nw", nwMain) }

type nwScript struct {
	NW    int                        `json:"nw"`
	Old   bool                       `json:"old"`
	Procs map[string][][]interface{} `json:"procs"`
	Sched []string                   `json:"sched"`
	Seed  int64                      `json:"seed"`
}

var nwLabels = map[int]string{
	nitro.VPPutInsert: "P1", nitro.VPDelNodeEntry: "N1", nitro.VPDelNodeFlush: "N3",
	nitro.VPDelNodeCAS: "N4", nitro.VPDelNodeAppend: "N5",
}

type nwRun struct {
	t       *tr.W
	s       *gate.Sched
	d       *nh.DB
	mu      sync.Mutex
	nodes   []*skiplist.Node // model id - 1 -> node
	pending []tr.Ev          // events produced by hooks during the current gate step
	held    map[string]*skiplist.Node
	// free worker gate
	fwq      []*fwEntry
	fwSent   int64 // destructor calls that queued a list
	fwParked int64
	fwDone   int64
	fwOrder  []unsafe.Pointer // lists in the order the destructor queued them
	abort    bool             // a fact that decides the verdict was observed: stop before the code runs into it
}

type fwEntry struct {
	list    unsafe.Pointer
	release chan struct{}
	done    chan struct{}
}

var nwCur atomic.Value

func (r *nwRun) idOf(n *skiplist.Node) int {
	if n == nil {
		return 0
	}
	for i, x := range r.nodes {
		if x == n {
			return i + 1
		}
	}
	return -1
}

func (r *nwRun) isFreed(n *skiplist.Node) bool {
	return r.d.A.IsDead(unsafe.Pointer(n))
}

// obs records the real state of every node ever created for the key.
func (r *nwRun) obs() tr.Ev {
	st := r.d.VerifStore()
	linked := map[*skiplist.Node]bool{}
	n, _ := skiplist.VerifNext(st.HeadNode(), 0)
	for guard := 0; n != nil && n != st.TailNode() && guard < 1000; guard++ {
		linked[n] = true
		n, _ = skiplist.VerifNext(n, 0)
	}
	rows := make([][]int, 0, len(r.nodes))
	for _, x := range r.nodes {
		if r.isFreed(x) {
			rows = append(rows, []int{-1, -1, 0, -1, -1, 1})
			continue
		}
		born, dead := nitro.VerifItemSn(x.Item())
		_, marked := skiplist.VerifNext(x, 0)
		rows = append(rows, []int{int(born), int(dead), b2i(linked[x]), b2i(marked), r.idOf(x.GetLink()), 0})
	}
	gh, gt := []int{}, []int{}
	for _, w := range r.d.W {
		h, t := w.VerifGCList()
		gh = append(gh, r.idOf(h))
		gt = append(gt, r.idOf(t))
	}
	held := [][]int{}
	names := []string{}
	for p := range r.held {
		names = append(names, p)
	}
	sort.Strings(names)
	for _, p := range names {
		if x := r.held[p]; x != nil {
			pi, _ := strconv.Atoi(p)
			held = append(held, []int{pi, r.idOf(x), b2i(r.isFreed(x))})
		}
	}
	_, _, live, errs := r.d.A.Counts()
	if errs == nil {
		errs = []string{}
	}
	for _, h := range held {
		if h[2] == 1 {
			r.abort = true
		}
	}
	if len(errs) > 0 {
		r.abort = true
	}
	return tr.Ev{"e": "Obs", "nodes": rows, "gchead": gh, "gctail": gt, "held": held, "errs": errs, "live": live,
		"damaged": len(r.d.A.PoisonDamaged())}
}

func b2i(b bool) int {
	if b {
		return 1
	}
	return 0
}

func nwInstall() {
	nh.Extra = func(pt int, m *nitro.Nitro, a, b unsafe.Pointer) {
		v := nwCur.Load()
		if v == nil {
			return
		}
		r := v.(*nwRun)
		if r == nil || r.d == nil || m != r.d.Nitro {
			return
		}
		switch pt {
		case nitro.VPFreeListBegin:
			e := &fwEntry{list: a, release: make(chan struct{}), done: make(chan struct{})}
			r.mu.Lock()
			r.fwq = append(r.fwq, e)
			r.mu.Unlock()
			atomic.AddInt64(&r.fwParked, 1)
			<-e.release
			return
		case nitro.VPFreeListEnd:
			r.mu.Lock()
			for _, e := range r.fwq {
				if e.list == a {
					select {
					case <-e.done:
					default:
						close(e.done)
					}
				}
			}
			r.mu.Unlock()
			return
		}
		l, ok := nwLabels[pt]
		if !ok {
			return
		}
		if r.s == nil {
			return
		}
		p := r.s.Current()
		if p == nil {
			return
		}
		var x *skiplist.Node
		if pt != nitro.VPPutInsert {
			x = (*skiplist.Node)(a)
		}
		r.mu.Lock()
		r.held[p.Name] = x
		r.mu.Unlock()
		p.Yield(&gate.Point{Pt: l, A: a})
	}
	skiplist.VerifHook = func(pt int, a, b unsafe.Pointer, x int) {
		if pt != skiplist.VPAbC3 {
			return
		}
		v := nwCur.Load()
		if v == nil {
			return
		}
		r := v.(*nwRun)
		if r == nil || r.d == nil || a != unsafe.Pointer(r.d.VerifStore().GetAccesBarrier()) {
			return
		}
		_, _, _, ref := skiplist.VerifSession((*skiplist.BarrierSession)(b))
		r.mu.Lock()
		r.pending = append(r.pending, tr.Ev{"e": "A", "a": "Destruct", "ref": r.idOf((*skiplist.Node)(ref))})
		r.mu.Unlock()
		if ref != nil {
			r.mu.Lock()
			r.fwOrder = append(r.fwOrder, ref)
			r.mu.Unlock()
			atomic.AddInt64(&r.fwSent, 1)
		}
	}
}

// settle waits until the lists queued by destructors are parked at the free workers' hook -- as many of them as
// there are free workers (nitro runs one per writer): further lists wait in the channel until a worker is released.
func (r *nwRun) settle() error {
	deadline := time.Now().Add(20 * time.Second)
	for {
		sent, parked, done := atomic.LoadInt64(&r.fwSent), atomic.LoadInt64(&r.fwParked), atomic.LoadInt64(&r.fwDone)
		want := sent - done
		if nw := int64(len(r.d.W)); want > nw {
			want = nw
		}
		if parked-done >= want {
			return nil
		}
		if time.Now().After(deadline) {
			return fmt.Errorf("nw: free worker did not pick up a queued list (sent %d parked %d done %d)", sent, parked, done)
		}
		time.Sleep(20 * time.Microsecond)
	}
}

func (r *nwRun) flushPending() {
	r.mu.Lock()
	evs := r.pending
	r.pending = nil
	r.mu.Unlock()
	for _, e := range evs {
		r.t.Emit(e)
	}
}

// freeOne lets the free worker process the oldest parked list; the model events are emitted first
// (nothing else runs meanwhile).
func (r *nwRun) freeOne() error {
	// nitro runs one free worker per writer, all reading one channel: whichever holds the list that was
	// queued first is released (the model has one worker taking lists in queue order)
	r.mu.Lock()
	var e *fwEntry
	if len(r.fwOrder) > 0 {
		for _, x := range r.fwq {
			select {
			case <-x.done:
			default:
				if e == nil && x.list == r.fwOrder[0] {
					e = x
				}
			}
		}
		if e != nil {
			r.fwOrder = r.fwOrder[1:]
		}
	}
	r.mu.Unlock()
	if e == nil {
		return nil
	}
	head := (*skiplist.Node)(e.list)
	r.t.Emit(tr.Ev{"e": "A", "a": "FwTake", "head": r.idOf(head)})
	for n, guard := head, 0; n != nil && guard < 1000; guard++ {
		if r.isFreed(n) { // a list that runs into freed memory: the real worker will touch it too
			r.t.Emit(tr.Ev{"e": "A", "a": "FwFree", "n": r.idOf(n)})
			break
		}
		next := n.GetLink()
		r.t.Emit(tr.Ev{"e": "A", "a": "FwFree", "n": r.idOf(n)})
		n = next
	}
	close(e.release)
	select {
	case <-e.done:
		atomic.AddInt64(&r.fwDone, 1)
	case <-time.After(20 * time.Second):
		return fmt.Errorf("nw: free worker did not finish a list")
	}
	return r.settle() // the worker (or an idle one) now parks with the next queued list, if any
}

func (r *nwRun) fwPending() int {
	r.mu.Lock()
	defer r.mu.Unlock()
	n := 0
	for _, x := range r.fwq {
		select {
		case <-x.done:
		default:
			n++
		}
	}
	return n
}

func nwScenario(t *tr.W, sc *nwScript) string {
	r := &nwRun{t: t, held: map[string]*skiplist.Node{}}
	r.d = nh.Open(nh.Cfg{KV: true, MM: true, Writers: sc.NW, Hold: true})
	nwCur.Store(r)
	defer nwCur.Store((*nwRun)(nil))
	if sc.Old {
		n := r.d.W[0].Put2(r.d.Item(1, 0))
		r.nodes = append(r.nodes, n)
	}
	s1, _ := r.d.NewSnapshot()
	s1.Close()
	sns, err := r.d.Picked()
	if err != nil {
		return err.Error()
	}
	for _, sn := range sns {
		r.d.Unlink(sn)
	}
	r.mu.Lock()
	r.pending = nil // the set-up snapshot's (empty) session
	r.mu.Unlock()
	names := []string{}
	for i := 1; i <= sc.NW; i++ {
		names = append(names, strconv.Itoa(i))
	}
	t.Emit(tr.Ev{"e": "NwInit", "nw": sc.NW, "old": sc.Old})
	r.s = gate.New(sc.Seed)
	r.s.Sched = sc.Sched
	last := map[string]string{}
	curOp := map[string]string{}
	curX := map[string]int{}
	var resMu sync.Mutex
	lastRes := map[string]bool{}
	lastNode := map[string]*skiplist.Node{}
	alive := int32(sc.NW)
	stepErr := ""
	r.s.OnStep = func(p *gate.Proc, at *gate.Point, finished bool) {
		if p.Name == "fw" {
			return
		}
		pi, _ := strconv.Atoi(p.Name)
		from := last[p.Name]
		to := "idle"
		if !finished {
			to = at.Pt
		}
		resMu.Lock()
		res, node := lastRes[p.Name], lastNode[p.Name]
		resMu.Unlock()
		act := func(a string, kv ...interface{}) {
			e := tr.Ev{"e": "A", "a": a, "p": pi}
			for i := 0; i+1 < len(kv); i += 2 {
				e[kv[i].(string)] = kv[i+1]
			}
			t.Emit(e)
		}
		switch {
		case from == "P1":
			if node != nil {
				r.nodes = append(r.nodes, node)
			}
			act("Put", "res", node != nil, "id", r.idOf(node))
		case from == "idle" && curOp[p.Name] == "del" && to == "N1":
			act("DelStart")
			act("G1", "x", r.idOf((*skiplist.Node)(at.A)))
		case from == "idle" && curOp[p.Name] == "del" && to == "idle":
			act("DelStart")
			act("G1", "x", 0, "res", false)
		case from == "N1" && to == "N3":
			act("N1")
			act("N2", "res", true)
		case from == "N1" && to == "idle":
			act("N1")
			act("N2", "res", false)
			act("N3", "res", res)
		case from == "N1" && to == "N4":
			act("N1")
		case from == "N3":
			act("N3", "res", res)
		case from == "N4" && to == "N5":
			act("N4", "res", true)
		case from == "N4":
			act("N4", "res", res)
		case from == "N5":
			act("N5", "res", res)
		}
		if from == "idle" && to == "N1" {
			curX[p.Name] = r.idOf((*skiplist.Node)(at.A))
		}
		if to == "idle" && curOp[p.Name] == "del" && (from == "idle" || from == "N1" || from == "N3" || from == "N4" || from == "N5") {
			// the API-level fact, independent of the path the call took: which version Delete2 found, and its result
			t.Emit(tr.Ev{"e": "DelRet", "p": pi, "x": curX[p.Name], "res": res})
			curX[p.Name] = 0
		}
		if to == "idle" {
			r.mu.Lock()
			r.held[p.Name] = nil
			r.mu.Unlock()
			if !finished && at.Info != nil {
				curOp[p.Name], _ = at.Info["op"].(string)
			}
		}
		last[p.Name] = to
		r.flushPending()
		if err := r.settle(); err != nil && stepErr == "" {
			stepErr = err.Error()
		}
		t.Emit(r.obs())
	}
	r.s.Blocked = func(p *gate.Proc, at *gate.Point) bool {
		if r.abort {
			return true
		}
		return p.Name == "fw" && at.Pt == "fwidle" && r.fwPending() == 0 && atomic.LoadInt32(&alive) > 0
	}
	body := func(name string, ops [][]interface{}) func(p *gate.Proc) {
		wi, _ := strconv.Atoi(name)
		w := r.d.W[wi-1]
		return func(p *gate.Proc) {
			defer atomic.AddInt32(&alive, -1)
			for i, op := range ops {
				kind := op[0].(string)
				p.Yield(&gate.Point{Pt: "idle", Info: map[string]interface{}{"op": kind}})
				switch kind {
				case "put":
					n := w.Put2(r.d.Item(1, wi*100+i+1))
					resMu.Lock()
					lastRes[name], lastNode[name] = n != nil, n
					resMu.Unlock()
				case "del":
					_, ok := w.Delete2(r.d.Item(1, 0))
					resMu.Lock()
					lastRes[name], lastNode[name] = ok, nil
					resMu.Unlock()
				}
			}
		}
	}
	for _, n := range names {
		last[n] = "start"
		r.s.Go(n, body(n, sc.Procs[n]))
	}
	r.s.Go("fw", func(p *gate.Proc) {
		for {
			p.Yield(&gate.Point{Pt: "fwidle"})
			if r.fwPending() == 0 {
				if atomic.LoadInt32(&alive) <= 0 {
					return
				}
				continue
			}
			if err := r.freeOne(); err != nil && stepErr == "" {
				stepErr = err.Error()
			}
			r.flushPending()
			t.Emit(r.obs())
		}
	})
	msg := ""
	if err := r.s.Run(); err != nil {
		if r.abort { // the trace holds the verdict; the parked goroutines are abandoned
			t.Emit(tr.Ev{"e": "NwEnd", "sched": r.s.Trace, "followed": r.s.Follow, "aborted": true})
			t.Flush()
			return ""
		}
		msg = err.Error()
	} else if stepErr != "" {
		msg = stepErr
	}
	trace := r.s.Trace
	if trace == nil {
		trace = []string{}
	}
	if msg == "" {
		msg = r.post()
	}
	t.Emit(tr.Ev{"e": "NwEnd", "sched": trace, "followed": r.s.Follow})
	t.Flush()
	return msg
}

// post: NewSnapshot at quiescence, closed at once; collection worker; remaining free lists; Close.
func (r *nwRun) post() string {
	t := r.t
	s2, _ := r.d.NewSnapshot()
	_, _, gl := nitro.VerifSnapInfo(s2)
	t.Emit(tr.Ev{"e": "A", "a": "Snapshot", "head": r.idOf(gl)})
	t.Emit(r.obs())
	n := 0
	for x, guard := gl, 0; x != nil && guard < 1000; guard++ {
		if r.isFreed(x) { // following it would crash here, and the collection worker right after: the fact is the verdict
			t.Emit(tr.Ev{"e": "Fault", "msg": "the garbage list handed to a new snapshot contains a node that was already returned to the allocator"})
			nwCur.Store((*nwRun)(nil))
			return ""
		}
		n++
		x = x.GetLink()
	}
	s2.Close()
	sns, err := r.d.Picked()
	if err != nil {
		return err.Error()
	}
	for i := 0; i <= n; i++ {
		t.Emit(tr.Ev{"e": "A", "a": "GcStep"})
	}
	for _, sn := range sns {
		if err := r.d.Unlink(sn); err != nil {
			return err.Error()
		}
	}
	r.flushPending()
	if err := r.settle(); err != nil {
		return err.Error()
	}
	t.Emit(r.obs())
	for r.fwPending() > 0 {
		if err := r.freeOne(); err != nil {
			return err.Error()
		}
		r.flushPending()
		t.Emit(r.obs())
	}
	t.Emit(tr.Ev{"e": "A", "a": "CloseDB"})
	nwCur.Store((*nwRun)(nil))
	r.d.Shutdown()
	m, f, live, errs := r.d.A.Counts()
	if errs == nil {
		errs = []string{}
	}
	freed := []int{}
	for _, x := range r.nodes {
		freed = append(freed, b2i(r.isFreed(x)))
	}
	t.Emit(tr.Ev{"e": "Closed", "mallocs": m, "frees": f, "live": live, "errs": errs, "freed": freed, "damaged": len(r.d.A.PoisonDamaged())})
	return ""
}

func nwMain(args []string) int {
	fs := flag.NewFlagSet("nw", flag.ExitOnError)
	out := fs.String("out", "trace.ndjson", "")
	scripts := fs.String("scripts", "", "")
	seed := fs.Int64("seed", 1, "")
	n := fs.Int("n", 100, "")
	fs.Parse(args)
	t, err := tr.Create(*out)
	if err != nil {
		die("%v", err)
	}
	defer t.Close()
	nh.Open(nh.Cfg{Writers: 1}).Shutdown() // installs the nitro hook dispatcher
	nwInstall()
	var failed []string
	nsc := 0
	run := func(sc *nwScript) {
		if msg := nwScenario(t, sc); msg != "" {
			failed = append(failed, fmt.Sprintf("scenario %d: %s", nsc+1, msg))
		}
		nsc++
	}
	if *scripts != "" {
		f, err := os.Open(*scripts)
		if err != nil {
			die("%v", err)
		}
		rd := bufio.NewScanner(f)
		rd.Buffer(make([]byte, 1<<20), 1<<26)
		for rd.Scan() {
			var sc nwScript
			if err := json.Unmarshal(rd.Bytes(), &sc); err != nil {
				die("script: %v", err)
			}
			run(&sc)
		}
	} else {
		rnd := rand.New(rand.NewSource(*seed))
		for i := 0; i < *n; i++ {
			sc := &nwScript{NW: 2 + rnd.Intn(2), Old: rnd.Intn(4) != 0, Procs: map[string][][]interface{}{}, Seed: rnd.Int63()}
			for p := 1; p <= sc.NW; p++ {
				var ops [][]interface{}
				for j := 0; j < 1+rnd.Intn(4); j++ {
					ops = append(ops, []interface{}{[]string{"put", "del", "del"}[rnd.Intn(3)]})
				}
				sc.Procs[strconv.Itoa(p)] = ops
			}
			run(sc)
		}
	}
	t.Flush()
	js, _ := json.Marshal(map[string]interface{}{"scenarios": nsc, "events": t.Count(), "failed": failed})
	fmt.Println(string(js))
	return 0
}
