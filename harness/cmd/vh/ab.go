package main

// ab: the access barrier under the gate scheduler (C16, C17), plus a free-running mode.
//
//   vh ab -out trace.ndjson [-scripts f | -seed S -n N] [-free]
//
// Script lines: {"procs":{"a1":["acq","rel"],"f1":["flush"]},"sched":["a1","f1",...]}
// Gated runs park every process at each verif yield point of access_barrier.go and release one at a
// time (following "sched" while possible, then by seeded random choice).  Two kinds of events are
// recorded: "S" = one fine-grain step (process, label reached, real counters) for conformance with
// AccessBarrier.tla, and API events (AcqRet, RelCall, FlushCall, FlushLocked, FlushRet, Destruct,
// Quiesce) for the property verdict (Trace_BarrierAPI.tla).

import (
	"bufio"
	"encoding/json"
	"flag"
	"fmt"
	"math/rand"
	"os"
	"sort"
	"sync"
	"sync/atomic"
	"time"
	"unsafe"

	"github.com/couchbase/nitro/skiplist"
	"verif/harness/gate"
	"verif/harness/nh"
	"verif/harness/tr"
)

func init() { register("ab", abMain) }

type abScript struct {
	Procs map[string][]string `json:"procs"`
	Sched []string            `json:"sched"`
	Seed  int64               `json:"seed"`
}

var abLabels = map[int]string{
	skiplist.VPAbA1: "A1", skiplist.VPAbA2: "A2", skiplist.VPAbR1: "R1", skiplist.VPAbR2: "R2", skiplist.VPAbR3: "R3",
	skiplist.VPAbR4: "R4", skiplist.VPAbR5: "R5", skiplist.VPAbC1: "C1", skiplist.VPAbC2: "C2", skiplist.VPAbC3: "C3",
	skiplist.VPAbC4: "C4", skiplist.VPAbR6: "R6", skiplist.VPAbF0: "F0", skiplist.VPAbF1: "F1", skiplist.VPAbF2: "F2", skiplist.VPAbF3: "F3",
}

// the hook is process-global: it dispatches to the scheduler of the scenario that is running
var abCur atomic.Value // *abRun

type abRun struct {
	t       *tr.W
	s       *gate.Sched
	ab      *skiplist.AccessBarrier
	mu      sync.Mutex
	sess    map[unsafe.Pointer]int
	sessP   []*skiplist.BarrierSession
	nflush  int
	free    bool
	quiesce func(map[string]string)
}

func (r *abRun) sid(p unsafe.Pointer) int {
	if p == nil {
		return 0
	}
	r.mu.Lock()
	defer r.mu.Unlock()
	id, ok := r.sess[p]
	if !ok {
		id = len(r.sess) + 1
		r.sess[p] = id
		r.sessP = append(r.sessP, (*skiplist.BarrierSession)(p))
	}
	return id
}

func (r *abRun) obs(e tr.Ev) {
	cur, aseq, fseq, destr, qlen := skiplist.VerifBarrier(r.ab)
	e["cur"] = r.sid(unsafe.Pointer(cur))
	e["aseq"], e["fseq"], e["destr"], e["qlen"] = aseq, fseq, destr, qlen
	r.mu.Lock()
	n := len(r.sessP)
	ps := append([]*skiplist.BarrierSession(nil), r.sessP...)
	r.mu.Unlock()
	live := make([]int64, n)
	latch := make([]int32, n)
	seq := make([]uint64, n)
	for i, bs := range ps {
		l, sq, cl, _ := skiplist.VerifSession(bs)
		lv := int64(l)
		if lv > skiplist.VerifBarrierOffset/2 { // express the real offset as the model's OFF = 100
			lv = lv - skiplist.VerifBarrierOffset + 100
		}
		live[i], latch[i], seq[i] = lv, cl, sq
	}
	e["live"], e["latch"], e["seq"] = live, latch, seq
}

func abInstallHook() {
	skiplist.VerifHook = func(pt int, a, b unsafe.Pointer, x int) {
		v := abCur.Load()
		if v == nil {
			return
		}
		r := v.(*abRun)
		if r == nil || a != unsafe.Pointer(r.ab) {
			return
		}
		l, ok := abLabels[pt]
		if !ok {
			return
		}
		if pt == skiplist.VPAbF2 {
			// the session closed by this flush is now tagged: API-level "FlushLocked" (under the flush mutex)
			_, _, _, ref := skiplist.VerifSession((*skiplist.BarrierSession)(b))
			r.t.Emit(tr.Ev{"e": "FlushLocked", "sess": r.sid(b), "f": int(uintptr(ref))})
		}
		if r.free {
			return
		}
		p := r.s.Current()
		if p == nil {
			return
		}
		p.Yield(&gate.Point{Pt: l, A: a, B: b, X: x})
	}
}

func abScenario(t *tr.W, sc *abScript, free bool) string {
	r := &abRun{t: t, sess: map[unsafe.Pointer]int{}, free: free}
	al := nh.NewAlloc()
	cfg := skiplist.DefaultConfig()
	cfg.UseMemoryMgmt = true
	cfg.Malloc, cfg.Free = al.Malloc, al.Free
	cfg.BarrierDestructor = func(ref unsafe.Pointer) {
		t.Emit(tr.Ev{"e": "Destruct", "f": int(uintptr(ref))})
	}
	sl := skiplist.NewWithConfig(cfg)
	r.ab = sl.GetAccesBarrier()
	cur, _, _, _, _ := skiplist.VerifBarrier(r.ab)
	r.sid(unsafe.Pointer(cur))
	names := []string{}
	for n := range sc.Procs {
		names = append(names, n)
	}
	sort.Strings(names)
	t.Emit(tr.Ev{"e": "AbInit", "procs": names, "free": free})
	r.s = gate.New(sc.Seed)
	r.s.Sched = sc.Sched
	// the flush mutex: a process parked at F0 is eligible only while nobody is between F0 and F3
	holder := ""
	r.s.Blocked = func(p *gate.Proc, at *gate.Point) bool {
		return at.Pt == "F0" && holder != "" && holder != p.Name
	}
	last := map[string]string{}
	r.s.OnStep = func(p *gate.Proc, at *gate.Point, finished bool) {
		if last[p.Name] == "F0" {
			holder = p.Name
		}
		if last[p.Name] == "F3" {
			holder = ""
		}
		pt := "done"
		e := tr.Ev{"e": "S", "p": p.Name, "from": last[p.Name]}
		if !finished {
			pt = at.Pt
			e["sess"] = r.sid(at.B)
			for k, v := range at.Info {
				e[k] = v
			}
		}
		e["pt"] = pt
		last[p.Name] = pt
		r.obs(e)
		t.Emit(e)
		if !finished && pt == "idle" || finished {
			// quiescence: every process idle or done, nobody holds a token
			r.maybeQuiesce(last)
		}
	}
	abCur.Store(r)
	holding := map[string]int{}
	var hmu sync.Mutex
	r.quiesce = func(lastPt map[string]string) {
		hmu.Lock()
		defer hmu.Unlock()
		for _, n := range names {
			if (lastPt[n] != "idle" && lastPt[n] != "done") || holding[n] > 0 {
				return
			}
		}
		_, _, fseq, _, qlen := skiplist.VerifBarrier(r.ab)
		t.Emit(tr.Ev{"e": "Quiesce", "fseq": fseq, "qlen": qlen})
	}
	body := func(name string, ops []string) func(p *gate.Proc) {
		return func(p *gate.Proc) {
			var toks []*skiplist.BarrierSession
			for _, op := range ops {
				if !free {
					p.Yield(&gate.Point{Pt: "idle", Info: map[string]interface{}{"op": op}})
				}
				switch op {
				case "acq":
					tk := r.ab.Acquire()
					toks = append(toks, tk)
					hmu.Lock()
					holding[name]++
					hmu.Unlock()
					t.Emit(tr.Ev{"e": "AcqRet", "p": name, "sess": r.sid(unsafe.Pointer(tk))})
				case "rel":
					if len(toks) == 0 {
						continue
					}
					tk := toks[len(toks)-1]
					toks = toks[:len(toks)-1]
					hmu.Lock()
					holding[name]--
					hmu.Unlock()
					t.Emit(tr.Ev{"e": "RelCall", "p": name, "sess": r.sid(unsafe.Pointer(tk))})
					r.ab.Release(tk)
				case "flush":
					r.mu.Lock()
					r.nflush++
					f := r.nflush
					r.mu.Unlock()
					t.Emit(tr.Ev{"e": "FlushCall", "p": name, "f": f})
					r.ab.FlushSession(unsafe.Pointer(uintptr(f)))
					t.Emit(tr.Ev{"e": "FlushRet", "p": name, "f": f})
				}
			}
			// release what is still held so that the run can reach quiescence
			for len(toks) > 0 {
				tk := toks[len(toks)-1]
				toks = toks[:len(toks)-1]
				if !free {
					p.Yield(&gate.Point{Pt: "idle", Info: map[string]interface{}{"op": "rel"}})
				}
				hmu.Lock()
				holding[name]--
				hmu.Unlock()
				t.Emit(tr.Ev{"e": "RelCall", "p": name, "sess": r.sid(unsafe.Pointer(tk))})
				r.ab.Release(tk)
			}
		}
	}
	msg := ""
	if free {
		var wg sync.WaitGroup
		for _, n := range names {
			wg.Add(1)
			go func(n string) {
				defer wg.Done()
				defer func() {
					if x := recover(); x != nil {
						t.Emit(tr.Ev{"e": "Panic", "p": n, "msg": fmt.Sprint(x)})
					}
				}()
				body(n, sc.Procs[n])(nil)
			}(n)
		}
		wg.Wait()
		_, _, fseq, _, qlen := skiplist.VerifBarrier(r.ab)
		t.Emit(tr.Ev{"e": "Quiesce", "fseq": fseq, "qlen": qlen})
	} else {
		for _, n := range names {
			n := n
			fn := body(n, sc.Procs[n])
			r.s.Go(n, func(p *gate.Proc) {
				defer func() {
					if x := recover(); x != nil {
						t.Emit(tr.Ev{"e": "Panic", "p": n, "msg": fmt.Sprint(x)})
					}
				}()
				fn(p)
			})
		}
		if err := r.s.Run(); err != nil {
			msg = err.Error()
		}
	}
	abCur.Store((*abRun)(nil))
	trace := r.s.Trace
	if trace == nil {
		trace = []string{}
	}
	t.Emit(tr.Ev{"e": "AbEnd", "sched": trace, "followed": r.s.Follow})
	return msg
}

func (r *abRun) maybeQuiesce(last map[string]string) {
	if r.quiesce != nil {
		r.quiesce(last)
	}
}

func abMain(args []string) int {
	fs := flag.NewFlagSet("ab", flag.ExitOnError)
	out := fs.String("out", "trace.ndjson", "")
	scripts := fs.String("scripts", "", "")
	seed := fs.Int64("seed", 1, "")
	n := fs.Int("n", 100, "")
	free := fs.Bool("free", false, "free-running goroutines (no gate): API events only")
	big := fs.Bool("big", false, "larger random scenarios")
	many := fs.Int("many", 0, "append a scenario in which one goroutine holds this many tokens of one session at once (scale)")
	fs.Parse(args)
	t, err := tr.Create(*out)
	if err != nil {
		die("%v", err)
	}
	defer t.Close()
	abInstallHook()
	var failed []string
	nsc := 0
	run := func(sc *abScript) {
		if msg := abScenario(t, sc, *free); msg != "" {
			failed = append(failed, fmt.Sprintf("scenario %d: %s", nsc+1, msg))
		}
		nsc++
	}
	if *scripts != "" {
		f, err := os.Open(*scripts)
		if err != nil {
			die("%v", err)
		}
		rd := bufio.NewScanner(f)
		rd.Buffer(make([]byte, 1<<20), 1<<26)
		for rd.Scan() {
			var sc abScript
			if err := json.Unmarshal(rd.Bytes(), &sc); err != nil {
				die("script: %v", err)
			}
			run(&sc)
		}
	} else {
		rnd := rand.New(rand.NewSource(*seed))
		for i := 0; i < *n; i++ {
			sc := &abScript{Procs: map[string][]string{}, Seed: rnd.Int63()}
			na, nf := 1+rnd.Intn(2), 1+rnd.Intn(2)
			if *big {
				na, nf = 1+rnd.Intn(4), 1+rnd.Intn(3)
			}
			for a := 1; a <= na; a++ {
				var ops []string
				depth := 0
				for j := 0; j < 2+rnd.Intn(4); j++ {
					if depth > 0 && rnd.Intn(2) == 0 {
						ops = append(ops, "rel")
						depth--
					} else if depth < 2 {
						ops = append(ops, "acq")
						depth++
					}
				}
				sc.Procs[fmt.Sprintf("a%d", a)] = ops
			}
			for f := 1; f <= nf; f++ {
				var ops []string
				for j := 0; j < 1+rnd.Intn(2); j++ {
					if rnd.Intn(4) == 0 { // a flusher that itself holds a token
						ops = append(ops, "acq", "flush", "rel")
					} else {
						ops = append(ops, "flush")
					}
				}
				sc.Procs[fmt.Sprintf("f%d", f)] = ops
			}
			run(sc)
		}
	}
	if *many > 0 {
		if msg := abMany(t, *many); msg != "" {
			failed = append(failed, "many holders: "+msg)
		}
		nsc++
	}
	t.Flush()
	js, _ := json.Marshal(map[string]interface{}{"scenarios": nsc, "events": t.Count(), "failed": failed})
	fmt.Println(string(js))
	return 0
}

// abMany: scale.  One goroutine acquires k tokens of the same session and holds them all; another accessor arrives;
// two flushes follow; the extra accessor leaves; only then the holder releases.  No destructor may run before that.
// The k tokens are logged as ONE group token (one AcqRet / RelCall with a count), which is exact for the API
// specification: the group is released as a whole.  If the bulk acquisition stops making progress (the barrier's
// arithmetic gives out at that many holders), the pending Acquire is treated as the extra accessor.
func abMany(t *tr.W, k int) string {
	r := &abRun{t: t, sess: map[unsafe.Pointer]int{}, free: true}
	cfg := skiplist.DefaultConfig()
	cfg.BarrierDestructor = func(ref unsafe.Pointer) {
		t.Emit(tr.Ev{"e": "Destruct", "f": int(uintptr(ref))})
	}
	cfg.UseMemoryMgmt = true
	al := nh.NewAlloc()
	cfg.Malloc, cfg.Free = al.Malloc, al.Free
	sl := skiplist.NewWithConfig(cfg)
	r.ab = sl.GetAccesBarrier()
	cur, _, _, _, _ := skiplist.VerifBarrier(r.ab)
	r.sid(unsafe.Pointer(cur))
	t.Emit(tr.Ev{"e": "AbInit", "procs": []string{"h", "x"}, "free": true, "many": k})
	abCur.Store(r)
	defer abCur.Store((*abRun)(nil))
	var got int64
	toks := make([]*skiplist.BarrierSession, 0, k)
	extra := make(chan *skiplist.BarrierSession, 1)
	go func() {
		for i := 0; i < k; i++ {
			tk := r.ab.Acquire()
			if int(atomic.LoadInt64(&got)) < 0 { // the main goroutine gave up on the bulk: this one is the extra accessor
				extra <- tk
				return
			}
			toks = append(toks, tk)
			atomic.AddInt64(&got, 1)
		}
		extra <- nil
	}()
	// wait for the bulk (or for it to stall)
	last, still := int64(-1), 0
	for still < 100 {
		g := atomic.LoadInt64(&got)
		if g >= int64(k) {
			break
		}
		if g == last {
			still++
		} else {
			still, last = 0, g
		}
		time.Sleep(20 * time.Millisecond)
	}
	n := int(atomic.LoadInt64(&got))
	stalled := n < k
	if n == 0 {
		return "no token could be acquired"
	}
	if stalled {
		atomic.StoreInt64(&got, -1)
	}
	t.Emit(tr.Ev{"e": "AcqRet", "p": "h", "sess": r.sid(unsafe.Pointer(toks[0])), "n": n})
	var xt *skiplist.BarrierSession
	if !stalled {
		<-extra
		xt = r.ab.Acquire()
		t.Emit(tr.Ev{"e": "AcqRet", "p": "x", "sess": r.sid(unsafe.Pointer(xt))})
	}
	for f := 1; f <= 2; f++ {
		t.Emit(tr.Ev{"e": "FlushCall", "p": "x", "f": f})
		r.ab.FlushSession(unsafe.Pointer(uintptr(f)))
		t.Emit(tr.Ev{"e": "FlushRet", "p": "x", "f": f})
	}
	if stalled {
		select {
		case xt = <-extra:
			t.Emit(tr.Ev{"e": "AcqRet", "p": "x", "sess": r.sid(unsafe.Pointer(xt))})
		case <-time.After(10 * time.Second):
			t.Emit(tr.Ev{"e": "Panic", "p": "x", "msg": fmt.Sprintf("Acquire did not return although %d tokens are held and two flushes completed", n)})
			return ""
		}
	}
	t.Emit(tr.Ev{"e": "RelCall", "p": "x", "sess": r.sid(unsafe.Pointer(xt))})
	r.ab.Release(xt)
	t.Emit(tr.Ev{"e": "RelCall", "p": "h", "sess": r.sid(unsafe.Pointer(toks[0])), "n": n})
	for _, tk := range toks[:n] {
		r.ab.Release(tk)
	}
	_, _, fseq, _, qlen := skiplist.VerifBarrier(r.ab)
	t.Emit(tr.Ev{"e": "Quiesce", "fseq": fseq, "qlen": qlen})
	t.Emit(tr.Ev{"e": "AbEnd", "sched": []string{}, "followed": 0})
	return ""
}
