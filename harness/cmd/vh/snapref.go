package main

// snapref: snapshot handles and the collector under the gate scheduler (C08).
//
//   vh snapref -out trace.ndjson [-scripts f | -seed S -n N] [-free]
//
// Script lines: {"nsnap":2,"owner":{"1":"p1","2":"p2"},"procs":{"p1":[["close",1]],"p2":[["open",1],["close",1]]},"sched":[...]}
// Ops: ["open",s] ["close",s] ["iter",s] ["iterclose",s] ["gc"].  Events: "S" fine-grain steps (label reached
// + real refcounts/lists) and API events OpenRet, CloseCall, Retire, GCSend, Quiesce.

import (
	"bufio"
	"encoding/json"
	"flag"
	"fmt"
	"math/rand"
	"os"
	"sort"
	"sync"
	"sync/atomic"
	"unsafe"

	"github.com/couchbase/nitro"
	"github.com/couchbase/nitro/skiplist"
	"verif/harness/gate"
	"verif/harness/nh"
	"verif/harness/tr"
)

func init() { register("snapref", srMain) }

type srScript struct {
	NSnap int                        `json:"nsnap"`
	Owner map[string]string          `json:"owner"`
	Procs map[string][][]interface{} `json:"procs"`
	Sched []string                   `json:"sched"`
	Seed  int64                      `json:"seed"`
}

var srLabels = map[int]string{
	nitro.VPSnapOpenMid: "O2", nitro.VPSnapCloseDec: "C2", nitro.VPSnapCloseMoved: "C3",
	nitro.VPGCLocked: "G1", nitro.VPGCSend: "G2", nitro.VPGCUnlocked: "G3",
}

type srRun struct {
	t     *tr.W
	s     *gate.Sched
	d     *nh.DB
	free  bool
	snaps []*nitro.Snapshot
}

var srCur atomic.Value

func (r *srRun) obs(e tr.Ev) {
	refs := make([]int32, len(r.snaps))
	for i, s := range r.snaps {
		_, rc, _ := nitro.VerifSnapInfo(s)
		refs[i] = rc
	}
	e["ref"] = refs
	e["lastgc"] = r.d.GetLastGCSn()
	live, retired := r.d.VerifSnapLists()
	walk := func(sl *skiplist.Skiplist) []int {
		out := []int{}
		n, _ := skiplist.VerifNext(sl.HeadNode(), 0)
		for n != nil && n != sl.TailNode() && len(out) < 1000 {
			nx, marked := skiplist.VerifNext(n, 0)
			if !marked {
				sn, _, _ := nitro.VerifSnapInfo(nitro.VerifSnapOf(n.Item()))
				out = append(out, int(sn))
			}
			n = nx
		}
		return out
	}
	e["open"] = walk(live)
	e["gcset"] = walk(retired)
}

func srInstall() {
	nh.Extra = func(pt int, m *nitro.Nitro, a, b unsafe.Pointer) {
		v := srCur.Load()
		if v == nil {
			return
		}
		r := v.(*srRun)
		if r == nil || r.d == nil || m != r.d.Nitro {
			return
		}
		l, ok := srLabels[pt]
		if !ok {
			return
		}
		switch pt {
		case nitro.VPSnapCloseMoved:
			sn, _, _ := nitro.VerifSnapInfo(nitro.VerifSnapOf(a))
			r.t.Emit(tr.Ev{"e": "Retire", "sn": int(sn)})
		case nitro.VPGCSend:
			sn, _, _ := nitro.VerifSnapInfo(nitro.VerifSnapOf(a))
			r.t.Emit(tr.Ev{"e": "GCSend", "sn": int(sn)})
		}
		if r.free {
			return
		}
		p := r.s.Current()
		if p == nil {
			return
		}
		sn := 0
		if pt == nitro.VPSnapOpenMid || pt == nitro.VPSnapCloseDec || pt == nitro.VPSnapCloseMoved || pt == nitro.VPGCSend {
			x, _, _ := nitro.VerifSnapInfo(nitro.VerifSnapOf(a))
			sn = int(x)
		}
		p.Yield(&gate.Point{Pt: l, X: sn})
	}
}

func srScenario(t *tr.W, sc *srScript, free bool) string {
	r := &srRun{t: t, free: free}
	r.d = nh.Open(nh.Cfg{Writers: 1, MM: sc.Seed%2 == 0})
	// a few items so that garbage lists are not empty
	for i := 1; i <= sc.NSnap; i++ {
		r.d.W[0].Put2(r.d.Item(i, 0))
		if i > 1 {
			r.d.W[0].Delete(r.d.Item(i-1, 0))
		}
		s, _ := r.d.NewSnapshot()
		r.snaps = append(r.snaps, s)
	}
	names := []string{}
	for n := range sc.Procs {
		names = append(names, n)
	}
	sort.Strings(names)
	owner := make([]string, sc.NSnap)
	for i := 1; i <= sc.NSnap; i++ {
		o := sc.Owner[fmt.Sprint(i)]
		if o == "" {
			o = names[0]
		}
		owner[i-1] = o
	}
	t.Emit(tr.Ev{"e": "SrInit", "procs": names, "nsnap": sc.NSnap, "owner": owner, "free": free})
	r.s = gate.New(sc.Seed)
	r.s.Sched = sc.Sched
	last := map[string]string{}
	cur := map[string]map[string]interface{}{}
	r.s.OnStep = func(p *gate.Proc, at *gate.Point, finished bool) {
		e := tr.Ev{"e": "S", "p": p.Name, "from": last[p.Name]}
		pt := "done"
		if !finished {
			pt = at.Pt
			e["sn"] = at.X
		}
		for k, v := range cur[p.Name] { // the operation this step belongs to
			e[k] = v
		}
		if !finished && pt == "idle" {
			cur[p.Name] = at.Info
			e["next"] = at.Info["op"]
		}
		e["pt"] = pt
		last[p.Name] = pt
		r.obs(e)
		t.Emit(e)
	}
	srCur.Store(r)
	var omu sync.Mutex
	body := func(name string, ops [][]interface{}) func(p *gate.Proc) {
		return func(p *gate.Proc) {
			owns := map[int]int{}
			iters := map[int][]*nitro.Iterator{}
			for i, o := range owner {
				if o == name {
					owns[i+1] = 1
				}
			}
			for _, op := range ops {
				kind := op[0].(string)
				sn := 0
				if len(op) > 1 {
					sn = num(op[1])
				}
				if sn > len(r.snaps) {
					continue
				}
				if (kind == "close" && owns[sn] == 0) || (kind == "iterclose" && len(iters[sn]) == 0) {
					continue
				}
				if !free {
					p.Yield(&gate.Point{Pt: "idle", Info: map[string]interface{}{"op": kind, "snap": sn}})
				}
				switch kind {
				case "open":
					ok := r.snaps[sn-1].Open()
					if ok {
						owns[sn]++
					}
					t.Emit(tr.Ev{"e": "OpenRet", "p": name, "sn": sn, "ok": ok, "api": "Open"})
				case "iter":
					it := r.snaps[sn-1].NewIterator()
					if it != nil {
						iters[sn] = append(iters[sn], it)
					}
					t.Emit(tr.Ev{"e": "OpenRet", "p": name, "sn": sn, "ok": it != nil, "api": "NewIterator"})
				case "close":
					owns[sn]--
					t.Emit(tr.Ev{"e": "CloseCall", "p": name, "sn": sn, "api": "Close"})
					r.snaps[sn-1].Close()
				case "iterclose":
					it := iters[sn][len(iters[sn])-1]
					iters[sn] = iters[sn][:len(iters[sn])-1]
					t.Emit(tr.Ev{"e": "CloseCall", "p": name, "sn": sn, "api": "Iterator.Close"})
					it.Close()
				case "gc":
					r.d.GC()
				}
			}
			// give back everything still owned so that the run ends with all handles closed
			for sn := 1; sn <= len(r.snaps); sn++ {
				for len(iters[sn]) > 0 {
					it := iters[sn][len(iters[sn])-1]
					iters[sn] = iters[sn][:len(iters[sn])-1]
					if !free {
						p.Yield(&gate.Point{Pt: "idle", Info: map[string]interface{}{"op": "iterclose", "snap": sn}})
					}
					t.Emit(tr.Ev{"e": "CloseCall", "p": name, "sn": sn, "api": "Iterator.Close"})
					it.Close()
				}
				for owns[sn] > 0 {
					owns[sn]--
					if !free {
						p.Yield(&gate.Point{Pt: "idle", Info: map[string]interface{}{"op": "close", "snap": sn}})
					}
					t.Emit(tr.Ev{"e": "CloseCall", "p": name, "sn": sn, "api": "Close"})
					r.snaps[sn-1].Close()
				}
			}
			omu.Lock()
			omu.Unlock()
		}
	}
	msg := ""
	if free {
		var wg sync.WaitGroup
		for _, n := range names {
			wg.Add(1)
			go func(n string) { defer wg.Done(); body(n, sc.Procs[n])(nil) }(n)
		}
		wg.Wait()
		// every handle has been given back: the snapshots are released.  Several goroutines now try to get a handle on
		// them at the same instant (Open and NewIterator mixed): none may succeed, whatever the others are doing to the
		// count meanwhile.  A success is logged (and the handle closed again); failures are summarised.
		if sc.Seed%2 == 0 {
			var hw sync.WaitGroup
			gun := int32(0)
			for g := 0; g < 5; g++ {
				hw.Add(1)
				go func(g int) {
					defer hw.Done()
					name := names[g%len(names)]
					atomic.AddInt32(&gun, 1)
					for atomic.LoadInt32(&gun) < 5 {
					}
					for i := 0; i < 20000; i++ {
						sn := 1 + (i+g)%len(r.snaps)
						if g < 3 {
							if it := r.snaps[sn-1].NewIterator(); it != nil {
								t.Emit(tr.Ev{"e": "OpenRet", "p": name, "sn": sn, "ok": true, "api": "NewIterator"})
								t.Emit(tr.Ev{"e": "CloseCall", "p": name, "sn": sn, "api": "Iterator.Close"})
								it.Close()
								return // one is enough for the verdict
							}
						} else if r.snaps[sn-1].Open() {
							t.Emit(tr.Ev{"e": "OpenRet", "p": name, "sn": sn, "ok": true, "api": "Open"})
							t.Emit(tr.Ev{"e": "CloseCall", "p": name, "sn": sn, "api": "Close"})
							r.snaps[sn-1].Close()
							return
						}
					}
					t.Emit(tr.Ev{"e": "OpenRet", "p": name, "sn": 1, "ok": false, "api": "Open / NewIterator (20000 attempts on released snapshots)"})
				}(g)
			}
			hw.Wait()
		}
	} else {
		for _, n := range names {
			r.s.Go(n, body(n, sc.Procs[n]))
		}
		if err := r.s.Run(); err != nil {
			msg = err.Error()
		}
	}
	srCur.Store((*srRun)(nil))
	if msg == "" {
		// every handle is closed: one forced collection pass at quiescence
		r.d.GC()
		if err := r.d.Quiesce(); err != nil {
			msg = err.Error()
		}
		e := tr.Ev{"e": "Quiesce"}
		r.obs(e)
		phys, _ := r.d.Phys()
		e["nodes"] = len(phys)
		e["livenodes"] = 1
		t.Emit(e)
	}
	trace := r.s.Trace
	if trace == nil {
		trace = []string{}
	}
	t.Emit(tr.Ev{"e": "SrEnd", "sched": trace, "followed": r.s.Follow})
	if msg == "" {
		r.d.Shutdown()
	}
	return msg
}

func srMain(args []string) int {
	fs := flag.NewFlagSet("snapref", flag.ExitOnError)
	out := fs.String("out", "trace.ndjson", "")
	scripts := fs.String("scripts", "", "")
	seed := fs.Int64("seed", 1, "")
	n := fs.Int("n", 100, "")
	free := fs.Bool("free", false, "")
	fs.Parse(args)
	t, err := tr.Create(*out)
	if err != nil {
		die("%v", err)
	}
	defer t.Close()
	nh.Open(nh.Cfg{Writers: 1}).Shutdown() // installs the nitro hook dispatcher
	srInstall()
	var failed []string
	nsc := 0
	run := func(sc *srScript) {
		if msg := srScenario(t, sc, *free); msg != "" {
			failed = append(failed, fmt.Sprintf("scenario %d: %s", nsc+1, msg))
		}
		nsc++
	}
	if *scripts != "" {
		f, err := os.Open(*scripts)
		if err != nil {
			die("%v", err)
		}
		rd := bufio.NewScanner(f)
		rd.Buffer(make([]byte, 1<<20), 1<<26)
		for rd.Scan() {
			var sc srScript
			if err := json.Unmarshal(rd.Bytes(), &sc); err != nil {
				die("script: %v", err)
			}
			run(&sc)
		}
	} else {
		rnd := rand.New(rand.NewSource(*seed))
		for i := 0; i < *n; i++ {
			sc := &srScript{NSnap: 1 + rnd.Intn(3), Owner: map[string]string{}, Procs: map[string][][]interface{}{}, Seed: rnd.Int63()}
			np := 2 + rnd.Intn(3)
			for s := 1; s <= sc.NSnap; s++ {
				sc.Owner[fmt.Sprint(s)] = fmt.Sprintf("p%d", 1+rnd.Intn(np))
			}
			for p := 1; p <= np; p++ {
				var ops [][]interface{}
				for j := 0; j < 2+rnd.Intn(5); j++ {
					s := 1 + rnd.Intn(sc.NSnap)
					k := []string{"open", "close", "close", "iter", "iterclose", "gc"}[rnd.Intn(6)]
					if k == "gc" {
						ops = append(ops, []interface{}{k})
					} else {
						ops = append(ops, []interface{}{k, s})
					}
				}
				sc.Procs[fmt.Sprintf("p%d", p)] = ops
			}
			run(sc)
		}
	}
	t.Flush()
	js, _ := json.Marshal(map[string]interface{}{"scenarios": nsc, "events": t.Count(), "failed": failed})
	fmt.Println(string(js))
	return 0
}
