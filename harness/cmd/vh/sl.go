package main

// sl: the lock-free skiplist under the gate scheduler and free-running (C13, C14, part of C04/C15).
//
//   vh sl -out trace.ndjson [-scripts f | -seed S -n N] [-free]
//
// Script lines: {"top":1,"mm":false,"procs":{"p1":[["ins",k,h],["del",k],["look",k],["deln",n]]},"sched":[...]}
// Node ids are allocation order (the n-th "ins" started allocates node n), as in Skiplist.tla.
// Events: "S" = one fine-grain step (label reached, the real (successor, mark) word of every known node
// at every level); Call / Ret / Walk = API events for SetLin.tla; Quiesce = structure + statistics walk.

import (
	"bufio"
	"encoding/json"
	"flag"
	"fmt"
	"math/rand"
	"os"
	"runtime/debug"
	"sort"
	"sync"
	"sync/atomic"
	"unsafe"

	"github.com/couchbase/nitro/skiplist"
	"verif/harness/gate"
	"verif/harness/nh"
	"verif/harness/tr"
)

func init() { register("sl", slMain) }

type slScript struct {
	Top   int                        `json:"top"`
	MM    bool                       `json:"mm"`
	Procs map[string][][]interface{} `json:"procs"`
	Sched []string                   `json:"sched"`
	Seed  int64                      `json:"seed"`
	Wide  bool                       `json:"wide"` // free-running only: no warm-up, every insert draws its level (biased tall), levels grow concurrently
}

var slLabels = map[int]string{
	skiplist.VPSlFindStart: "FP0", skiplist.VPSlLevel: "FP1", skiplist.VPSlFindNode: "FP2", skiplist.VPSlHelp: "FP3",
	skiplist.VPSlReload: "FP4", skiplist.VPSlReload2: "FP5", skiplist.VPSlPublish: "I2", skiplist.VPSlOwnLoad: "U1",
	skiplist.VPSlPredCAS: "U3", skiplist.VPSlMarkLoad: "S1", skiplist.VPSlMark: "S2", skiplist.VPSlDelSearch: "DS",
	skiplist.VPItSeek: "IT0", skiplist.VPItNext: "IN1", skiplist.VPItHelp: "IN2",
}

type slRun struct {
	t          *tr.W
	s          *gate.Sched
	sl         *skiplist.Skiplist
	al         *nh.Alloc
	free       bool
	top        int
	mu         sync.Mutex
	ids        map[*skiplist.Node]int
	nodes      []*skiplist.Node // by id (1-based), nil while the pointer is not yet known
	keys       []int
	lvls       []int
	nall       int
	curIns     map[string]int // process -> node id of the insert in progress
	okNode     map[int]bool   // node ids whose Insert returned success (valid DeleteNode targets)
	positioned map[string]bool
	keep       []unsafe.Pointer
}

var slCur atomic.Value

func (r *slRun) nodeID(n *skiplist.Node) int {
	if n == nil {
		return -1
	}
	if n == r.sl.HeadNode() {
		return 0
	}
	if n == r.sl.TailNode() {
		return r.nall + 1000 // printed as "T"
	}
	r.mu.Lock()
	defer r.mu.Unlock()
	if id, ok := r.ids[n]; ok {
		return id
	}
	return -2
}

func (r *slRun) itPositioned(name string) bool {
	r.mu.Lock()
	defer r.mu.Unlock()
	return r.positioned[name]
}

func (r *slRun) setPositioned(name string) {
	r.mu.Lock()
	if r.positioned == nil {
		r.positioned = map[string]bool{}
	}
	r.positioned[name] = true
	r.mu.Unlock()
}

func (r *slRun) learn(id int, n *skiplist.Node) {
	r.mu.Lock()
	if r.nodes[id] == nil {
		r.nodes[id] = n
		r.ids[n] = id
	}
	r.mu.Unlock()
}

// dump returns, for head and every known node, the (successor id, mark) word at each level <= its height.
func (r *slRun) dump() [][]interface{} {
	out := [][]interface{}{}
	word := func(n *skiplist.Node, l int) []int {
		nx, m := skiplist.VerifNext(n, l)
		mm := 0
		if m {
			mm = 1
		}
		id := r.nodeID(nx)
		if nx == r.sl.TailNode() {
			id = -9
		}
		return []int{id, mm}
	}
	row := func(id int, n *skiplist.Node, h int) {
		ws := [][]int{}
		for l := 0; l <= h; l++ {
			ws = append(ws, word(n, l))
		}
		out = append(out, []interface{}{id, ws})
	}
	row(0, r.sl.HeadNode(), r.top)
	r.mu.Lock()
	ns := append([]*skiplist.Node(nil), r.nodes...)
	r.mu.Unlock()
	for id := 1; id < len(ns); id++ {
		if ns[id] != nil && (r.al == nil || r.al.IsLive(unsafe.Pointer(ns[id]))) {
			row(id, ns[id], r.lvls[id])
		}
	}
	return out
}

func slInstall() {
	skiplist.VerifHook = func(pt int, a, b unsafe.Pointer, x int) {
		v := slCur.Load()
		if v == nil {
			return
		}
		r := v.(*slRun)
		if r == nil || a != unsafe.Pointer(r.sl) || r.free {
			return
		}
		l, ok := slLabels[pt]
		if !ok {
			return
		}
		p := r.s.Current()
		if p == nil {
			return
		}
		if pt == skiplist.VPSlPublish {
			r.mu.Lock()
			id := r.curIns[p.Name]
			r.mu.Unlock()
			r.learn(id, (*skiplist.Node)(b))
		}
		p.Yield(&gate.Point{Pt: l, B: b, X: x})
	}
}

func (r *slRun) quiesce() {
	e := tr.Ev{"e": "Quiesce"}
	item := func(p unsafe.Pointer) int { return skiplist.IntFromItem(p) }
	slObs(r.sl, e, item)
	// marked nodes reachable per level (C04 structural half)
	linkedMarked := 0
	for l := 0; l <= r.sl.VerifLevel(); l++ {
		n, _ := skiplist.VerifNext(r.sl.HeadNode(), l)
		for steps := 0; n != nil && n != r.sl.TailNode() && steps < 100000; steps++ {
			nx, _ := skiplist.VerifNext(n, l)
			_, m0 := skiplist.VerifNext(n, 0)
			if m0 {
				linkedMarked++
			}
			n = nx
		}
	}
	e["linkedmarked"] = linkedMarked
	heights := map[int]int{}
	r.mu.Lock()
	for id := 1; id < len(r.nodes); id++ {
		heights[r.keys[id]] = r.lvls[id]
	}
	r.mu.Unlock()
	// iterate through the public iterator as well
	buf := r.sl.MakeBuf()
	it := r.sl.NewIterator(skiplist.CompareInt, buf)
	scan := []int{}
	for it.SeekFirst(); it.Valid() && len(scan) < 100000; it.Next() {
		scan = append(scan, item(it.Get()))
	}
	it.Close()
	e["scan"] = scan
	if r.al != nil {
		m, f, live, errs := r.al.Counts()
		e["mallocs"], e["frees"], e["liveblocks"], e["allocerrs"] = m, f, live, len(errs)
	}
	r.t.Emit(e)
	r.t.Emit(tr.Ev{"e": "Walk", "items": scan})
}

func slScenario(t *tr.W, sc *slScript, free bool) string {
	r := &slRun{t: t, free: free, top: sc.Top, ids: map[*skiplist.Node]int{}, curIns: map[string]int{}, okNode: map[int]bool{}}
	cfg := skiplist.DefaultConfig()
	if sc.MM {
		r.al = nh.NewAlloc()
		cfg.UseMemoryMgmt = true
		cfg.Malloc, cfg.Free = r.al.Malloc, r.al.Free
		cfg.BarrierDestructor = func(ref unsafe.Pointer) {
			if ref != nil {
				r.sl.FreeNode((*skiplist.Node)(ref), &r.sl.Stats)
			}
		}
	}
	cfg.SetItemSizeFunc(func(unsafe.Pointer) int { return 8 })
	r.sl = skiplist.NewWithConfig(cfg)
	// raise the maximum level to Top, as a warmed-up skiplist has it
	for !sc.Wide && r.sl.VerifLevel() < sc.Top {
		calls := 0
		r.sl.NewLevel(func() float32 {
			calls++
			if calls <= r.sl.VerifLevel()+1 {
				return 0
			}
			return 1
		})
	}
	total := 0
	names := []string{}
	for n, ops := range sc.Procs {
		names = append(names, n)
		for _, op := range ops {
			if op[0].(string) == "ins" {
				total++
			}
		}
	}
	sort.Strings(names)
	r.nodes = make([]*skiplist.Node, total+1)
	r.keys = make([]int, total+1)
	r.lvls = make([]int, total+1)
	t.Emit(tr.Ev{"e": "SlInit", "procs": names, "top": sc.Top, "mm": sc.MM, "free": free, "maxnodes": total})
	r.s = gate.New(sc.Seed)
	r.s.Sched = sc.Sched
	last := map[string]string{}
	cur := map[string]map[string]interface{}{}
	r.s.OnStep = func(p *gate.Proc, at *gate.Point, finished bool) {
		e := tr.Ev{"e": "S", "p": p.Name, "from": last[p.Name]}
		pt := "done"
		if !finished {
			pt = at.Pt
			e["lvl"] = at.X
			e["node"] = r.nodeID((*skiplist.Node)(at.B))
		}
		for k, v := range cur[p.Name] {
			e[k] = v
		}
		if !finished && pt == "idle" {
			cur[p.Name] = at.Info
		}
		e["pt"] = pt
		last[p.Name] = pt
		e["nd"] = r.dump()
		t.Emit(e)
	}
	slCur.Store(r)
	var running int32
	body := func(name string, ops [][]interface{}) func(p *gate.Proc) {
		return func(p *gate.Proc) {
			// a panic of the skiplist on a legal call sequence is its behaviour: one Panic event, judged by the trace specs
			defer func() {
				if x := recover(); x != nil {
					where := ""
					if m := nitroFrame.FindSubmatch(debug.Stack()); m != nil {
						where = string(m[1])
					}
					t.Emit(tr.Ev{"e": "Panic", "p": name, "msg": fmt.Sprint(x), "where": where})
				}
			}()
			buf := r.sl.MakeBuf()
			var it *skiplist.Iterator
			defer func() {
				if it != nil {
					it.Close()
				}
			}()
			for _, op := range ops {
				kind := op[0].(string)
				arg := 0
				if len(op) > 1 {
					arg = num(op[1])
				}
				if kind == "itfirst" || kind == "itseek" || kind == "itnext" || kind == "itrefresh" {
					if it == nil {
						it = r.sl.NewIterator(skiplist.CompareInt, r.sl.MakeBuf())
						if free && rand.Intn(2) == 0 {
							it.SetRefreshInterval(1 + rand.Intn(3)) // periodic SMR refresh inside Next (C15: must not change the guarantees)
						}
					}
					if (kind == "itnext" || kind == "itrefresh") && !(r.itPositioned(name) && it.Valid()) {
						continue
					}
					if kind == "itrefresh" && !free {
						continue // refresh / pause are exercised free-running only (no model steps for them)
					}
					if !free {
						p.Yield(&gate.Point{Pt: "idle", Info: map[string]interface{}{"op": kind, "arg": arg}})
					}
					t.Emit(tr.Ev{"e": "ItCall", "p": name, "op": kind, "x": arg})
					switch kind {
					case "itfirst":
						it.SeekFirst()
					case "itseek":
						itm := skiplist.NewIntKeyItem(arg)
						r.mu.Lock()
						r.keep = append(r.keep, itm)
						r.mu.Unlock()
						it.Seek(itm)
					case "itnext":
						it.Next()
					case "itrefresh":
						if rand.Intn(2) == 0 {
							it.Pause()
							it.Resume()
						}
						it.Refresh()
					}
					r.setPositioned(name)
					v := it.Valid()
					e := tr.Ev{"e": "ItPos", "p": name, "valid": v, "k": 0, "node": -1, "refresh": kind == "itrefresh"}
					if v {
						e["k"] = skiplist.IntFromItem(it.Get())
						e["node"] = r.nodeID(it.GetNode())
					}
					t.Emit(e)
					continue
				}
				info := map[string]interface{}{"op": kind, "arg": arg}
				var tgt *skiplist.Node
				if kind == "deln" {
					r.mu.Lock()
					if arg < len(r.nodes) && r.okNode[arg] {
						tgt = r.nodes[arg]
					}
					r.mu.Unlock()
					if tgt == nil {
						continue // the node has not been published yet: DeleteNode needs its pointer
					}
					info["k"] = r.keys[arg]
				}
				h := 0
				if kind == "ins" {
					h = num(op[2])
					info["h"] = h
				}
				if !free {
					p.Yield(&gate.Point{Pt: "idle", Info: info})
				}
				atomic.AddInt32(&running, 1)
				switch kind {
				case "ins":
					r.mu.Lock()
					r.nall++
					id := r.nall
					r.keys[id], r.lvls[id] = arg, h
					r.curIns[name] = id
					itm := skiplist.NewIntKeyItem(arg)
					r.keep = append(r.keep, itm)
					r.mu.Unlock()
					t.Emit(tr.Ev{"e": "Call", "p": name, "op": "ins", "k": arg, "n": id, "h": h})
					var n *skiplist.Node
					var ok bool
					if free && (id%3 == 0 || sc.Wide) {
						// random level through NewLevel (may raise the maximum level concurrently)
						rf := rand.Float32
						if sc.Wide {
							rf = func() float32 { return rand.Float32() * 0.5 } // towers twice as likely to grow: level 8+ with a few hundred nodes
						}
						n, ok = r.sl.Insert2(itm, skiplist.CompareInt, nil, buf, rf, &r.sl.Stats)
						if ok {
							r.mu.Lock()
							r.lvls[id] = n.Level()
							r.mu.Unlock()
						}
					} else {
						n, ok = r.sl.Insert3(itm, skiplist.CompareInt, nil, buf, h, false, &r.sl.Stats)
					}
					if ok {
						r.learn(id, n)
						r.mu.Lock()
						r.okNode[id] = true
						r.mu.Unlock()
					}
					t.Emit(tr.Ev{"e": "Ret", "p": name, "ok": ok})
				case "del":
					t.Emit(tr.Ev{"e": "Call", "p": name, "op": "del", "k": arg, "n": 0})
					ok := r.sl.Delete(skiplist.NewIntKeyItem(arg), skiplist.CompareInt, buf, &r.sl.Stats)
					t.Emit(tr.Ev{"e": "Ret", "p": name, "ok": ok})
				case "look":
					t.Emit(tr.Ev{"e": "Call", "p": name, "op": "look", "k": arg, "n": 0})
					tok := r.sl.GetAccesBarrier().Acquire()
					_, _, found := r.sl.Lookup(skiplist.NewIntKeyItem(arg), skiplist.CompareInt, buf, &r.sl.Stats)
					r.sl.GetAccesBarrier().Release(tok)
					t.Emit(tr.Ev{"e": "Ret", "p": name, "ok": found})
				case "deln":
					t.Emit(tr.Ev{"e": "Call", "p": name, "op": "deln", "k": r.keys[arg], "n": arg})
					ok := r.sl.DeleteNode(tgt, skiplist.CompareInt, buf, &r.sl.Stats)
					t.Emit(tr.Ev{"e": "Ret", "p": name, "ok": ok})
				}
				atomic.AddInt32(&running, -1)
			}
		}
	}
	msg := ""
	if free {
		var wg sync.WaitGroup
		for _, n := range names {
			wg.Add(1)
			go func(n string) { defer wg.Done(); body(n, sc.Procs[n])(nil) }(n)
		}
		wg.Wait()
	} else {
		for _, n := range names {
			r.s.Go(n, body(n, sc.Procs[n]))
		}
		if err := r.s.Run(); err != nil {
			msg = err.Error()
		}
	}
	slCur.Store((*slRun)(nil))
	if msg == "" {
		r.quiesce()
	}
	trace := r.s.Trace
	if trace == nil {
		trace = []string{}
	}
	t.Emit(tr.Ev{"e": "SlEnd", "sched": trace, "followed": r.s.Follow})
	return msg
}

func slMain(args []string) int {
	fs := flag.NewFlagSet("sl", flag.ExitOnError)
	out := fs.String("out", "trace.ndjson", "")
	scripts := fs.String("scripts", "", "")
	seed := fs.Int64("seed", 1, "")
	n := fs.Int("n", 100, "")
	free := fs.Bool("free", false, "")
	big := fs.Bool("big", false, "")
	topFlag := fs.Int("top", 1, "maximum level of every random scenario (the trace cfg's Top)")
	wide := fs.Bool("wide", false, "free-running scenarios with hundreds of keys, 3-8 goroutines, organically growing towers")
	iters := fs.Int("iters", 0, "number of iterator goroutines per random scenario")
	fs.Parse(args)
	t, err := tr.Create(*out)
	if err != nil {
		die("%v", err)
	}
	defer t.Close()
	slInstall()
	var failed []string
	nsc := 0
	run := func(sc *slScript) {
		if msg := slScenario(t, sc, *free); msg != "" {
			failed = append(failed, fmt.Sprintf("scenario %d: %s", nsc+1, msg))
		}
		nsc++
	}
	if *scripts != "" {
		f, err := os.Open(*scripts)
		if err != nil {
			die("%v", err)
		}
		rd := bufio.NewScanner(f)
		rd.Buffer(make([]byte, 1<<20), 1<<26)
		for rd.Scan() {
			var sc slScript
			if err := json.Unmarshal(rd.Bytes(), &sc); err != nil {
				die("script: %v", err)
			}
			run(&sc)
		}
	} else {
		rnd := rand.New(rand.NewSource(*seed))
		for i := 0; i < *n; i++ {
			sc := &slScript{Top: *topFlag, MM: rnd.Intn(2) == 0, Procs: map[string][][]interface{}{}, Seed: rnd.Int63()}
			np := 2 + rnd.Intn(2)
			nk := 1 + rnd.Intn(3)
			nops := 2 + rnd.Intn(2)
			if *big {
				np, nk, nops = 2+rnd.Intn(5), 2+rnd.Intn(5), 3+rnd.Intn(6)
			}
			if *wide {
				sc.Wide = true
				np, nk, nops = 3+rnd.Intn(6), 50+rnd.Intn(250), 20+rnd.Intn(40)
			}
			nins := 0
			for p := 1; p <= np; p++ {
				var ops [][]interface{}
				for j := 0; j < nops; j++ {
					k := 1 + rnd.Intn(nk)
					switch y := rnd.Intn(10); {
					case y < 4:
						ops = append(ops, []interface{}{"ins", k, rnd.Intn(sc.Top + 1)})
						nins++
					case y < 7:
						ops = append(ops, []interface{}{"del", k})
					case y < 8:
						ops = append(ops, []interface{}{"look", k})
					default:
						if nins > 0 {
							ops = append(ops, []interface{}{"deln", 1 + rnd.Intn(nins)})
						} else {
							ops = append(ops, []interface{}{"del", k})
						}
					}
				}
				sc.Procs[fmt.Sprintf("p%d", p)] = ops
			}
			if !*wide && *iters == 0 && i%4 == 3 {
				// contended delete with follow-ups: one node (of full height) is inserted first, then every process deletes it
				// (by node or by key) and at once looks the key up / re-inserts it -- a loser that is told "false" while the winner
				// is still between two levels must not find the key afterwards
				sc.Procs = map[string][][]interface{}{}
				k := 1 + rnd.Intn(nk)
				for p := 1; p <= np; p++ {
					var ops [][]interface{}
					if p == 1 {
						ops = append(ops, []interface{}{"ins", k, sc.Top})
					}
					if rnd.Intn(2) == 0 {
						ops = append(ops, []interface{}{"deln", 1})
					} else {
						ops = append(ops, []interface{}{"del", k})
					}
					ops = append(ops, []interface{}{"look", k})
					if rnd.Intn(2) == 0 {
						ops = append(ops, []interface{}{"ins", k, rnd.Intn(sc.Top + 1)})
					}
					sc.Procs[fmt.Sprintf("p%d", p)] = ops
				}
			}
			for q := 1; q <= *iters; q++ {
				var ops [][]interface{}
				for j := 0; j < 2+rnd.Intn(2*nk+2); j++ {
					switch y := rnd.Intn(10); {
					case j == 0 || y < 1:
						if rnd.Intn(2) == 0 {
							ops = append(ops, []interface{}{"itfirst"})
						} else {
							ops = append(ops, []interface{}{"itseek", rnd.Intn(nk + 2)})
						}
					case y < 3 && *free:
						ops = append(ops, []interface{}{"itrefresh"})
					default:
						ops = append(ops, []interface{}{"itnext"})
					}
				}
				sc.Procs[fmt.Sprintf("it%d", q)] = ops
			}
			run(sc)
		}
	}
	t.Flush()
	js, _ := json.Marshal(map[string]interface{}{"scenarios": nsc, "events": t.Count(), "failed": failed})
	fmt.Println(string(js))
	return 0
}
