package main

// wr: concurrent nitro writers, readers, snapshot churn and GC (C03, C04, C06 contended part, C07).
//
//   vh wr -out trace.ndjson [-seed S -n N] [-guard] [-mm 0|1|2] [-big]
//
// Each scenario: several rounds of { concurrent phase: one goroutine per Writer issues Put / Delete /
// Delete2 / GetNode on a small shared key space while reader goroutines scan and visit open snapshots;
// quiescent phase: NewSnapshot, scan, close some snapshots, GC }.  At the end every snapshot is closed, a
// collection pass is forced, the physical chain is walked, and the instance is closed.
// Events: Call / Ret (logged under one mutex: Call before the call starts, Ret after it returned), Walk
// (snapshot content + Count at quiescence), RScan (a concurrent reader's scan of an open snapshot), Phys
// (linked nodes after everything was closed and collected), M (allocator events), Closed (allocator totals).

import (
	"flag"
	"fmt"
	"math/rand"
	"os"
	"runtime"
	"runtime/debug"
	"sort"
	"sync"
	"sync/atomic"
	"time"
	"unsafe"

	"github.com/couchbase/nitro"
	"verif/harness/nh"
	"verif/harness/tr"
)

func init() { register("wr", wrMain) }

type wrCfg struct {
	nh.Cfg
	NK, Rounds, Ops, Readers int
	Backup                   string // directory for concurrent backups ("" = none)
	Gun                      bool   // every writer runs the SAME operations, started together by a spin barrier
}

var wrNoMem bool

func wrScenario(t *tr.W, rnd *rand.Rand, c wrCfg, idx int) string {
	var opid int64
	memOn := int32(0)
	nh.MemEvent = func(kind string, id int64, size int) {
		if atomic.LoadInt32(&memOn) == 1 && !wrNoMem {
			t.Emit(tr.Ev{"e": "M", "k": kind, "id": id, "sz": size})
		}
	}
	names := []string{}
	for i := 1; i <= c.Writers; i++ {
		names = append(names, fmt.Sprintf("w%d", i))
	}
	t.Emit(tr.Ev{"e": "WrInit", "procs": names, "cfg": c.Cfg, "nk": c.NK})
	atomic.StoreInt32(&memOn, 1)
	d := nh.Open(c.Cfg)
	if d.G != nil {
		fmt.Fprintln(os.Stderr, d.G.Describe())
	}
	type snapT struct {
		s    *nitro.Snapshot
		sn   int
		view [][2]int
	}
	var snaps []*snapT
	var smu sync.Mutex
	msg := ""
	for round := 0; round < c.Rounds && msg == ""; round++ {
		// plan the operations of this round
		plans := make([][][3]int, c.Writers)
		for w := 0; w < c.Writers; w++ {
			for j := 0; j < c.Ops; j++ {
				plans[w] = append(plans[w], [3]int{rnd.Intn(10), 1 + rnd.Intn(c.NK), 0})
			}
		}
		var arrive []int32
		if c.Gun {
			// identical plans, one start gun per operation: every writer attacks the same key at the same instant
			for w := 1; w < c.Writers; w++ {
				plans[w] = plans[0]
			}
			arrive = make([]int32, c.Ops)
		}
		gun := func(j int) {
			if arrive == nil {
				return
			}
			atomic.AddInt32(&arrive[j], 1)
			for spin := 0; atomic.LoadInt32(&arrive[j]) < int32(c.Writers) && spin < 2000000; spin++ {
			}
		}
		var wg sync.WaitGroup
		stop := int32(0)
		// readers: scan / visit open snapshots while the writers run (C01 concurrent half, C04)
		var rwg sync.WaitGroup
		for r := 0; r < c.Readers; r++ {
			rwg.Add(1)
			rr := rand.New(rand.NewSource(rnd.Int63()))
			go func() {
				defer rwg.Done()
				debug.SetPanicOnFault(true)
				for atomic.LoadInt32(&stop) == 0 {
					smu.Lock()
					if len(snaps) == 0 {
						smu.Unlock()
						time.Sleep(50 * time.Microsecond)
						continue
					}
					sp := snaps[rr.Intn(len(snaps))]
					ok := sp.s.Open()
					smu.Unlock()
					if !ok {
						continue
					}
					var items [][2]int
					if rr.Intn(3) == 0 {
						var mu sync.Mutex
						per := map[int][][2]int{}
						d.Visitor(sp.s, func(itm *nitro.Item, shard int) error {
							mu.Lock()
							per[shard] = append(per[shard], d.Decode(itm.Bytes()))
							mu.Unlock()
							return nil
						}, 1+rr.Intn(4), 1+rr.Intn(2))
						var ks []int
						for k := range per {
							ks = append(ks, k)
						}
						sort.Ints(ks)
						items = [][2]int{}
						for _, k := range ks {
							items = append(items, per[k]...)
						}
					} else {
						items, _ = d.Scan(sp.s, []int{0, 1, 3}[rr.Intn(3)])
					}
					t.Emit(tr.Ev{"e": "RScan", "sn": sp.sn, "items": items})
					sp.s.Close()
				}
			}()
		}
		// a backup of an open snapshot running concurrently with the writers, readers and GC (C05)
		var bkSn int
		var bkErr error
		bkDone := make(chan struct{})
		if c.Backup != "" && round > 0 && rnd.Intn(2) == 0 {
			smu.Lock()
			sp := snaps[rnd.Intn(len(snaps))]
			ok := sp.s.Open()
			smu.Unlock()
			if ok {
				bkSn = sp.sn
				os.RemoveAll(c.Backup)
				go func() {
					defer close(bkDone)
					bkErr = d.StoreToDisk(c.Backup, sp.s, 1+rnd.Intn(3), nil)
				}()
			}
		}
		if bkSn == 0 {
			close(bkDone)
		}
		for w := 0; w < c.Writers; w++ {
			wg.Add(1)
			go func(w int) {
				defer wg.Done()
				debug.SetPanicOnFault(true)
				name := names[w]
				wr := d.W[w]
				for j, op := range plans[w] {
					k := op[1]
					id := int(atomic.AddInt64(&opid, 1))
					switch {
					case op[0] < 4:
						t.Emit(tr.Ev{"e": "Call", "p": name, "op": "ins", "k": k, "n": id})
						gun(j)
						n := wr.Put2(d.Item(k, id))
						t.Emit(tr.Ev{"e": "Ret", "p": name, "ok": n != nil})
					case op[0] < 6:
						t.Emit(tr.Ev{"e": "Call", "p": name, "op": "del", "k": k, "n": 0})
						gun(j)
						ok := wr.Delete(d.Item(k, 0))
						t.Emit(tr.Ev{"e": "Ret", "p": name, "ok": ok})
					case op[0] < 8:
						t.Emit(tr.Ev{"e": "Call", "p": name, "op": "del", "k": k, "n": 0})
						gun(j)
						_, ok := wr.Delete2(d.Item(k, 0))
						t.Emit(tr.Ev{"e": "Ret", "p": name, "ok": ok})
					default:
						t.Emit(tr.Ev{"e": "Call", "p": name, "op": "look", "k": k, "n": 0})
						gun(j)
						n := wr.GetNode(d.Item(k, 0))
						t.Emit(tr.Ev{"e": "Ret", "p": name, "ok": n != nil})
					}
				}
			}(w)
		}
		wg.Wait()
		atomic.StoreInt32(&stop, 1)
		rwg.Wait()
		<-bkDone
		if bkSn != 0 {
			ev := tr.Ev{"e": "Restore", "sn": bkSn, "stored": bkErr == nil}
			if bkErr == nil {
				rc := c.Cfg
				rc.Writers = 1
				rc.Guard = false
				memWas := atomic.SwapInt32(&memOn, 0) // the restored instance has its own allocator: not part of this stream
				nd := nh.Open(rc)
				rs, err := nd.LoadFromDisk(c.Backup, 1+rnd.Intn(3), nil)
				ev["loaded"] = err == nil
				if err == nil {
					nd.RefreshStore()
					items, _ := nd.Scan(rs, 0)
					ev["items"], ev["count"] = items, rs.Count()
					rs.Close()
				} else {
					ev["items"], ev["count"], ev["err"] = [][2]int{}, 0, err.Error()
				}
				nd.Shutdown()
				atomic.StoreInt32(&memOn, memWas)
			} else {
				ev["loaded"], ev["items"], ev["count"], ev["err"] = false, [][2]int{}, 0, bkErr.Error()
			}
			t.Emit(ev)
		}
		// quiescent phase
		s, err := d.NewSnapshot()
		if err != nil {
			msg = err.Error()
			break
		}
		sn, _, _ := nitro.VerifSnapInfo(s)
		view, _ := d.Scan(s, 0)
		smu.Lock()
		snaps = append(snaps, &snapT{s: s, sn: int(sn), view: view})
		smu.Unlock()
		t.Emit(tr.Ev{"e": "Walk", "sn": int(sn), "items": view, "count": s.Count(), "itemscount": d.ItemsCount()})
		// close some snapshots in random order, collect
		smu.Lock()
		for len(snaps) > 1 && rnd.Intn(2) == 0 {
			i := rnd.Intn(len(snaps))
			snaps[i].s.Close()
			snaps = append(snaps[:i], snaps[i+1:]...)
		}
		smu.Unlock()
		if rnd.Intn(2) == 0 {
			d.GC()
		}
	}
	if msg != "" {
		return msg
	}
	for _, sp := range snaps {
		sp.s.Close()
	}
	d.GC()
	if err := d.Quiesce(); err != nil {
		return err.Error()
	}
	// let pending barrier sessions terminate: nothing holds a token now
	phys, walkmem := d.Phys()
	items := [][2]int{}
	marked := 0
	for _, x := range phys {
		items = append(items, [2]int{x[0], x[1]})
		marked += x[4]
	}
	st := d.Stats()
	t.Emit(tr.Ev{"e": "Phys", "items": items, "marked": marked, "nodes": st.NodeCount, "softdel": st.SoftDeletes,
		"statmem": st.Memory, "walkmem": walkmem, "lastgc": d.GetLastGCSn(), "cur": d.GetCurrSn()})
	d.Shutdown()
	atomic.StoreInt32(&memOn, 0)
	if d.Mem != nil {
		m, f, live, errs := d.Mem.Counts()
		if errs == nil {
			errs = []string{}
		}
		t.Emit(tr.Ev{"e": "Closed", "mallocs": m, "frees": f, "live": live, "errs": errs})
	}
	t.Emit(tr.Ev{"e": "WrEnd", "idx": idx})
	return ""
}

func wrMain(args []string) int {
	fs := flag.NewFlagSet("wr", flag.ExitOnError)
	out := fs.String("out", "trace.ndjson", "")
	seed := fs.Int64("seed", 1, "")
	n := fs.Int("n", 50, "")
	guard := fs.Bool("guard", false, "guard-page allocator (always MM)")
	mm := fs.Int("mm", 2, "0 = Go-managed, 1 = user-managed, 2 = alternate")
	big := fs.Bool("big", false, "")
	skip := fs.Int("skip", 0, "skip the first scenarios (resume after a crash)")
	nomem := fs.Bool("nomem", false, "do not record allocator events")
	backup := fs.String("backup", "", "directory: run StoreToDisk concurrently with the writers and restore it afterwards")
	gunF := fs.Bool("gun", false, "start-gun scenarios: all writers run the same operations on the same keys at the same instant")
	fs.IntVar(&wrChurnMode, "churnmode", -1, "force the churn scenario kind: bit 0 restored instance, bit 1 rolling snapshots, bit 2 delta backups")
	churn := fs.Float64("churn", 0, "seconds per scenario of reader-vs-churn stress (instead of the round-based scenarios)")
	fs.Parse(args)
	if *churn > 0 {
		nh.GuardSlots = 4000000
		nh.FastGuard = true // allocation rates of 100k/s: one system call per block (on Free) instead of two
	}
	wrNoMem = *nomem
	t, err := tr.Create(*out)
	if err != nil {
		die("%v", err)
	}
	defer t.Close()
	rnd := rand.New(rand.NewSource(*seed))
	var failed []string
	for i := 0; i < *n; i++ {
		srnd := rand.New(rand.NewSource(rnd.Int63()))
		c := wrCfg{NK: 1 + srnd.Intn(4), Rounds: 2 + srnd.Intn(3), Ops: 4 + srnd.Intn(12), Readers: srnd.Intn(3)}
		c.Cfg = nh.Cfg{KV: true, Writers: 2 + srnd.Intn(3)}
		if *big {
			c.Cfg.Writers = 2 + srnd.Intn(5)
			c.NK = 1 + srnd.Intn(8)
			c.Ops = 8 + srnd.Intn(20)
		}
		if *gunF {
			c.Gun = true
			c.Readers = 0
			c.NK = 1 + srnd.Intn(2)
			c.Rounds = 3 + srnd.Intn(4)
			c.Cfg.Writers = 2 + srnd.Intn(3)
		}
		switch *mm {
		case 1:
			c.MM = true
		case 2:
			c.MM = i%2 == 0
		}
		if *guard {
			c.MM, c.Guard = true, true
		}
		if *backup != "" {
			c.Backup = *backup
			c.Cfg.Delta = srnd.Intn(2) == 0
			c.Rounds = 3 + srnd.Intn(3)
		}
		if i < *skip {
			continue
		}
		fmt.Fprintf(os.Stderr, "BEGIN %d\n", i)
		t.Flush()
		if *churn > 0 {
			if msg := wrChurn(t, srnd, c, *churn, i); msg != "" {
				failed = append(failed, fmt.Sprintf("scenario %d: %s", i, msg))
			}
			t.Flush()
			continue
		}
		if msg := wrScenario(t, srnd, c, i); msg != "" {
			failed = append(failed, fmt.Sprintf("scenario %d: %s", i, msg))
		}
		t.Flush()
	}
	fmt.Printf("{\"scenarios\":%d,\"events\":%d,\"failed\":%d}\n", *n-*skip, t.Count(), len(failed))
	for _, f := range failed {
		fmt.Fprintln(os.Stderr, "FAILED", f)
	}
	return 0
}

// wr-restore: instances populated by LoadFromDisk, then operated and closed (C07, restore half).
func wrRestoreMain(args []string) int {
	fs := flag.NewFlagSet("wr-restore", flag.ExitOnError)
	out := fs.String("out", "trace.ndjson", "")
	dir := fs.String("dir", "bk", "")
	seed := fs.Int64("seed", 1, "")
	n := fs.Int("n", 20, "")
	fs.Parse(args)
	t, err := tr.Create(*out)
	if err != nil {
		die("%v", err)
	}
	defer t.Close()
	rnd := rand.New(rand.NewSource(*seed))
	memOn := int32(0)
	nh.MemEvent = func(kind string, id int64, size int) {
		if atomic.LoadInt32(&memOn) == 1 {
			t.Emit(tr.Ev{"e": "M", "k": kind, "id": id, "sz": size})
		}
	}
	closed := func(d *nh.DB) {
		m, f, live, errs := d.Mem.Counts()
		if errs == nil {
			errs = []string{}
		}
		t.Emit(tr.Ev{"e": "Closed", "mallocs": m, "frees": f, "live": live, "errs": errs})
	}
	workload := func(d *nh.DB, nk, steps int) []*nitro.Snapshot {
		var snaps []*nitro.Snapshot
		for j := 0; j < steps; j++ {
			k := 1 + rnd.Intn(nk)
			w := d.W[rnd.Intn(len(d.W))]
			switch rnd.Intn(6) {
			case 0, 1, 2:
				w.Put2(d.Item(k, j+1)) // includes rejected Puts
			case 3:
				w.Delete(d.Item(k, 0))
			case 4:
				s, _ := d.NewSnapshot()
				snaps = append(snaps, s)
			default:
				if len(snaps) > 0 {
					i := rnd.Intn(len(snaps))
					snaps[i].Close()
					snaps = append(snaps[:i], snaps[i+1:]...)
				}
			}
		}
		return snaps
	}
	for i := 0; i < *n; i++ {
		delta := rnd.Intn(2) == 0
		cfg := nh.Cfg{KV: true, MM: true, Writers: 1 + rnd.Intn(3), Delta: delta}
		nk := 3 + rnd.Intn(40)
		t.Emit(tr.Ev{"e": "WrInit", "procs": []string{"main"}, "cfg": cfg, "phase": "store"})
		atomic.StoreInt32(&memOn, 1)
		d := nh.Open(cfg)
		snaps := workload(d, nk, 30+rnd.Intn(100))
		s, _ := d.NewSnapshot()
		os.RemoveAll(*dir)
		s.Open()
		// while the backup scans: most keys are deleted, every other snapshot closed and the garbage collected, so that with
		// delta interleaving items reach the delta files -- some of them after the scan has written them to a shard as well
		// (LoadFromDisk must reject those duplicates and release them)
		var sweep sync.Once
		sOpen := true
		cb := func(*nitro.ItemEntry) {
			if rnd.Intn(3) != 0 {
				return
			}
			sweep.Do(func() {
				for k := 1; k <= nk; k++ {
					if k%4 != 0 {
						d.W[0].Delete(d.Item(k, 0))
					}
				}
				sx, _ := d.NewSnapshot()
				for _, x := range snaps {
					x.Close()
				}
				snaps = nil
				s.Close()
				sOpen = false
				sx.Close()
				d.GC()
				d.Quiesce()
			})
		}
		if err := d.StoreToDisk(*dir, s, 1+rnd.Intn(3), cb); err != nil {
			die("StoreToDisk: %v", err)
		}
		if sOpen {
			s.Close()
		}
		for _, x := range snaps {
			x.Close()
		}
		d.Shutdown()
		atomic.StoreInt32(&memOn, 0)
		closed(d)
		// restore into a fresh instance, operate, close
		t.Emit(tr.Ev{"e": "WrInit", "procs": []string{"main"}, "cfg": cfg, "phase": "restore"})
		atomic.StoreInt32(&memOn, 1)
		d2 := nh.Open(cfg)
		rs, err := d2.LoadFromDisk(*dir, 1+rnd.Intn(3), nil)
		if err != nil {
			die("LoadFromDisk: %v", err)
		}
		d2.RefreshStore()
		snaps = workload(d2, nk, 20+rnd.Intn(60))
		rs.Close()
		for _, x := range snaps {
			x.Close()
		}
		d2.Shutdown()
		atomic.StoreInt32(&memOn, 0)
		closed(d2)
	}
	os.RemoveAll(*dir)
	fmt.Printf("{\"scenarios\":%d,\"events\":%d}\n", 2**n, t.Count())
	return 0
}

func init() { register("wr-restore", wrRestoreMain) }

// wrChurn: long-running readers (Visitor with many shards, refreshing iterators, backups) over a pinned
// snapshot while writers insert and delete neighbouring keys within the current epoch as fast as they can:
// every pointer a reader keeps across its accessor tokens (pivots, copied items, nodes under a cursor) is
// exposed to reclamation.  Events: View (the snapshot's content), RScan / Restore, M, Closed.
var wrChurnMode = -1 // >= 0: force the scenario kind (bit 0 restored instance, bit 1 rolling snapshots, bit 2 delta backups)

func wrChurn(t *tr.W, rnd *rand.Rand, c wrCfg, secs float64, idx int) string {
	if wrChurnMode >= 0 {
		idx = wrChurnMode
	}
	memOn := int32(0)
	nh.MemEvent = func(kind string, id int64, size int) {
		if atomic.LoadInt32(&memOn) == 1 && !wrNoMem {
			t.Emit(tr.Ev{"e": "M", "k": kind, "id": id, "sz": size})
		}
	}
	names := []string{"w1", "w2"}
	c.Cfg.Writers = 2
	c.Cfg.Delta = idx%8 >= 4 // half of the scenarios back up with delta interleaving
	t.Emit(tr.Ev{"e": "WrInit", "procs": names, "cfg": c.Cfg, "nk": c.NK, "churn": true})
	atomic.StoreInt32(&memOn, 1)
	d := nh.Open(c.Cfg)
	if d.G != nil {
		fmt.Fprintln(os.Stderr, d.G.Describe())
	}
	nstable := 100 + rnd.Intn(400)
	for i := 1; i <= nstable; i++ {
		d.W[0].Put2(d.Item(2*i, i))
	}
	s1, _ := d.NewSnapshot()
	if c.Backup != "" && idx%2 == 1 {
		// every other scenario runs on a RESTORED instance whose writers (and their collection / free workers) were
		// created before LoadFromDisk replaced the store -- reclamation must wait for the accessors of the new store
		os.RemoveAll(c.Backup)
		s1.Open()
		if err := d.StoreToDisk(c.Backup, s1, 2, nil); err != nil {
			return "set-up backup failed: " + err.Error()
		}
		s1.Close()
		d.Shutdown()
		d = nh.Open(c.Cfg)
		if d.G != nil {
			fmt.Fprintln(os.Stderr, d.G.Describe())
		}
		rs, err := d.LoadFromDisk(c.Backup, 2, nil)
		if err != nil {
			return "set-up restore failed: " + err.Error()
		}
		d.RefreshStore()
		s1 = rs
	}
	view, _ := d.Scan(s1, 0)
	t.Emit(tr.Ev{"e": "View", "sn": 1, "items": view, "count": s1.Count()})
	stop := int32(0)
	var epoch sync.RWMutex
	var wg sync.WaitGroup
	for w := 0; w < 2; w++ {
		wg.Add(1)
		wr := d.W[w]
		wrnd := rand.New(rand.NewSource(rnd.Int63()))
		go func(w int) {
			defer wg.Done()
			debug.SetPanicOnFault(true)
			for n := 0; atomic.LoadInt32(&stop) == 0; n++ {
				// odd keys, between the stable ones: they become pivots and cursor positions of the readers
				epoch.RLock()
				wr.Put2(d.Item(2*(1+wrnd.Intn(nstable))+1, n))
				if wrnd.Intn(4) != 0 {
					wr.Delete(d.Item(2*(1+wrnd.Intn(nstable))+1, 0))
				}
				epoch.RUnlock()
				if n%64 == 0 {
					time.Sleep(20 * time.Microsecond)
				}
			}
		}(w)
	}
	// epochs keep turning: items deleted in a later epoch than they were born in go through the writers' garbage lists,
	// the snapshot's list, the collection workers and the barrier (NewSnapshot only while no writer call is in progress).
	// Rolling scenarios: the readers follow the LATEST snapshot and every older one is closed, so the collection and free
	// workers run while the readers scan; pinned scenarios keep reading the first snapshot (nothing is collected meanwhile).
	type curSnap struct {
		s   *nitro.Snapshot
		sn  int
		log bool // its view was recorded: scans of it are logged and judged (every snapshot is scanned, few are logged)
	}
	rolling := idx%4 >= 2
	var cur atomic.Value
	cur.Store(&curSnap{s1, 1, true})
	nsnap := 0
	wg.Add(1)
	go func() {
		defer wg.Done()
		for atomic.LoadInt32(&stop) == 0 {
			time.Sleep(time.Duration(200+rnd.Intn(800)) * time.Microsecond)
			epoch.Lock()
			sx, err := d.NewSnapshot()
			if err == nil && rolling {
				sn, _, _ := nitro.VerifSnapInfo(sx)
				nsnap++
				logIt := nsnap%16 == 0
				if logIt {
					v, _ := d.Scan(sx, 0)
					t.Emit(tr.Ev{"e": "View", "sn": int(sn) + 1000, "items": v, "count": sx.Count()})
				}
				old := cur.Load().(*curSnap)
				cur.Store(&curSnap{sx, int(sn) + 1000, logIt})
				epoch.Unlock()
				old.s.Close()
				continue
			}
			epoch.Unlock()
			if err == nil {
				sx.Close()
			}
		}
	}()
	// an item is handed to a callback under the scan's accessor token: the allocator must not have it back yet
	var heldOnce sync.Once
	held := func(what string) {
		heldOnce.Do(func() {
			t.Emit(tr.Ev{"e": "Fault", "msg": what + " had already been returned to the allocator (checked in the allocator's registry while the callback was running)", "scenario": idx})
			atomic.StoreInt32(&stop, 1)
		})
	}
	var rwg sync.WaitGroup
	for r := 0; r < 3; r++ {
		rwg.Add(1)
		rr := rand.New(rand.NewSource(rnd.Int63()))
		go func(r int) {
			defer rwg.Done()
			debug.SetPanicOnFault(true)
			for atomic.LoadInt32(&stop) == 0 {
				cs := cur.Load().(*curSnap)
				s1, sn1, logged := cs.s, cs.sn, cs.log && (!rolling || rr.Intn(4) == 0)
				if !s1.Open() {
					continue // the snapper has moved on and closed it
				}
				var items [][2]int
				switch rr.Intn(4) {
				case 0, 1:
					var mu sync.Mutex
					per := map[int][][2]int{}
					d.Visitor(s1, func(itm *nitro.Item, shard int) error {
						if rr.Intn(16) == 0 {
							runtime.Gosched()
						}
						if d.Freed(unsafe.Pointer(itm)) {
							held("the item handed to the Visitor's callback")
							return nil
						}
						kv := d.Decode(itm.Bytes())
						mu.Lock()
						per[shard] = append(per[shard], kv)
						mu.Unlock()
						return nil
					}, []int{2, 4, 8, 16, 32}[rr.Intn(5)], 1+rr.Intn(3))
					var ks []int
					for k := range per {
						ks = append(ks, k)
					}
					sort.Ints(ks)
					items = [][2]int{}
					for _, k := range ks {
						items = append(items, per[k]...)
					}
					if logged {
						t.Emit(tr.Ev{"e": "RScan", "sn": sn1, "items": items, "by": "visitor"})
					}
				case 2:
					items, _ = d.Scan(s1, []int{1, 3, 17}[rr.Intn(3)])
					if logged {
						t.Emit(tr.Ev{"e": "RScan", "sn": sn1, "items": items, "by": "iterator"})
					}
				default:
					if c.Backup != "" && r == 0 {
						s1.Open()
						os.RemoveAll(c.Backup)
						// the item handed to the callback must stay readable while the callback runs (with delta interleaving
						// the snapshot is not pinned: only the scan's accessor token keeps collected items from being freed)
						var sink byte
						err := d.StoreToDisk(c.Backup, s1, 1+rr.Intn(3), func(e *nitro.ItemEntry) {
							if rr.Intn(8) == 0 {
								time.Sleep(30 * time.Microsecond)
							}
							if d.Freed(unsafe.Pointer(e.Item())) {
								held("the item handed to StoreToDisk's callback")
								return
							}
							b := e.Item().Bytes()
							sink += b[len(b)-1]
						})
						_ = sink
						if cs.log {
							ev := tr.Ev{"e": "Restore", "sn": sn1, "stored": err == nil, "loaded": false, "items": [][2]int{}, "count": 0}
							if err == nil {
								rc := c.Cfg
								rc.Writers, rc.Guard, rc.MM = 1, false, false
								memWas := atomic.SwapInt32(&memOn, 0)
								nd := nh.Open(rc)
								rs, lerr := nd.LoadFromDisk(c.Backup, 2, nil)
								if lerr == nil {
									nd.RefreshStore()
									it2, _ := nd.Scan(rs, 0)
									ev["loaded"], ev["items"], ev["count"] = true, it2, rs.Count()
									rs.Close()
								}
								nd.Shutdown()
								atomic.StoreInt32(&memOn, memWas)
							}
							t.Emit(ev)
						}
					}
				}
				s1.Close()
			}
		}(r)
	}
	time.Sleep(time.Duration(secs * float64(time.Second)))
	atomic.StoreInt32(&stop, 1)
	wg.Wait()
	rwg.Wait()
	cur.Load().(*curSnap).s.Close()
	d.GC()
	if err := d.Quiesce(); err != nil {
		return err.Error()
	}
	d.Shutdown()
	atomic.StoreInt32(&memOn, 0)
	if d.Mem != nil {
		m, f, live, errs := d.Mem.Counts()
		if errs == nil {
			errs = []string{}
		}
		t.Emit(tr.Ev{"e": "Closed", "mallocs": m, "frees": f, "live": live, "errs": errs})
	}
	t.Emit(tr.Ev{"e": "WrEnd", "idx": idx})
	return ""
}
