// Package nh: helpers shared by the nitro drivers -- a checking allocator passed through
// Config.UseMemoryMgmt, the garbage-collection gate (deterministic control of collection
// workers through the verif hooks) and observation functions (physical walk, statistics).
package nh

import (
	"fmt"
	"sync"
	"sync/atomic"
	"unsafe"
)

// Alloc is a registry allocator: every block is a Go-allocated, 8-byte aligned slab kept
// reachable by the registry; Free poisons the block and moves it to a quarantine (never reused),
// so double frees, frees of unknown pointers and leaks are detected exactly, and reads after
// free see poison.  (The guard-page variant lives in guard.go.)
type Alloc struct {
	mu      sync.Mutex
	live    map[uintptr]*block
	dead    map[uintptr]*block
	nextID  int64
	Mallocs int64
	Frees   int64
	// Errors recorded instead of panicking inside library goroutines.
	Errs []string
	// OnEvent, if set, is called (under mu) for every malloc/free with the block id.
	OnEvent func(kind string, id int64, size int)
}

type block struct {
	id   int64
	mem  []uint64
	size int
}

const poison = 0xDEADDEADDEADDEAD

func NewAlloc() *Alloc {
	return &Alloc{live: map[uintptr]*block{}, dead: map[uintptr]*block{}}
}

func (a *Alloc) Malloc(n int) unsafe.Pointer {
	words := (n + 7) / 8
	if words == 0 {
		words = 1
	}
	b := &block{mem: make([]uint64, words), size: n}
	p := unsafe.Pointer(&b.mem[0])
	a.mu.Lock()
	a.nextID++
	b.id = a.nextID
	a.live[uintptr(p)] = b
	a.Mallocs++
	if a.OnEvent != nil {
		a.OnEvent("malloc", b.id, n)
	}
	a.mu.Unlock()
	return p
}

func (a *Alloc) Free(p unsafe.Pointer) {
	a.mu.Lock()
	defer a.mu.Unlock()
	b, ok := a.live[uintptr(p)]
	if !ok {
		if d, was := a.dead[uintptr(p)]; was {
			a.Errs = append(a.Errs, fmt.Sprintf("double free of block %d (size %d)", d.id, d.size))
			if a.OnEvent != nil {
				a.OnEvent("doublefree", d.id, d.size)
			}
		} else {
			a.Errs = append(a.Errs, fmt.Sprintf("free of a pointer that was never allocated: %x", uintptr(p)))
			if a.OnEvent != nil {
				a.OnEvent("badfree", 0, 0)
			}
		}
		return
	}
	delete(a.live, uintptr(p))
	for i := range b.mem {
		b.mem[i] = poison
	}
	a.dead[uintptr(p)] = b
	atomic.AddInt64(&a.Frees, 1)
	if a.OnEvent != nil {
		a.OnEvent("free", b.id, b.size)
	}
}

// Live returns the number of blocks allocated and not freed.
func (a *Alloc) Live() int {
	a.mu.Lock()
	defer a.mu.Unlock()
	return len(a.live)
}

// IsLive reports whether p is the start of a live block.
func (a *Alloc) IsLive(p unsafe.Pointer) bool {
	a.mu.Lock()
	defer a.mu.Unlock()
	_, ok := a.live[uintptr(p)]
	return ok
}

// IsDead reports whether p is the start of a freed block.
func (a *Alloc) IsDead(p unsafe.Pointer) bool {
	a.mu.Lock()
	defer a.mu.Unlock()
	_, ok := a.dead[uintptr(p)]
	return ok
}

// PoisonDamaged returns ids of freed blocks whose poison has been overwritten (write after free).
func (a *Alloc) PoisonDamaged() []int64 {
	a.mu.Lock()
	defer a.mu.Unlock()
	var out []int64
	for _, b := range a.dead {
		for _, w := range b.mem {
			if w != poison {
				out = append(out, b.id)
				break
			}
		}
	}
	return out
}

func (a *Alloc) Counts() (mallocs, frees int64, live int, errs []string) {
	a.mu.Lock()
	defer a.mu.Unlock()
	return a.Mallocs, a.Frees, len(a.live), append([]string(nil), a.Errs...)
}
