package nh

import (
	"encoding/json"
	"fmt"
	"sync"
	"time"
	"unsafe"

	"github.com/couchbase/nitro"
	"github.com/couchbase/nitro/skiplist"
)

// Cfg selects the configuration of an instance under test.
type Cfg struct {
	KV      bool `json:"kv"`      // CompareKV comparator (key-only; values differ) instead of whole-item bytes.Compare
	MM      bool `json:"mm"`      // user-managed memory through the checking allocator
	Writers int  `json:"writers"` // number of writers (= collection workers)
	Delta   bool `json:"delta"`   // UseDeltaInterleaving
	Hold    bool `json:"hold"`    // hold released garbage lists at the gate until an explicit GCUnlink
	Guard   bool `json:"guard"`   // MM with the guard-page allocator (use after free faults immediately)
	FixKey  bool `json:"fixkey"`  // keys of one length (runs of consecutive keys then have XOR-cancelling CRC32s: the shard checksum's weak spot)
}

// Mem is the allocator interface shared by the registry and the guard allocator.
type Mem interface {
	Malloc(int) unsafe.Pointer
	Free(unsafe.Pointer)
	Counts() (mallocs, frees int64, live int, errs []string)
}

// DB wraps a nitro instance with its gate and allocator.
type DB struct {
	*nitro.Nitro
	Cfg   Cfg
	A     *Alloc
	G     *Guard
	Mem   Mem
	W     []*nitro.Writer
	gate  *gcGate
	store *skiplist.Skiplist
}

// GuardSlots is the number of blocks a guard-mode instance can allocate.
var GuardSlots = 200000

// FastGuard selects the guard allocator variant without guard pages and without a system call per Malloc.
var FastGuard = false

// MemEvent, if set, receives every malloc/free of instances opened afterwards.
var MemEvent func(kind string, id int64, size int)

var (
	hookOnce sync.Once
	gates    sync.Map // *nitro.Nitro -> *gcGate
	// Extra, if set, receives every nitro yield point after the GC gate handled it.
	Extra func(pt int, m *nitro.Nitro, a, b unsafe.Pointer)
)

func installHook() {
	hookOnce.Do(func() {
		nitro.VerifHook = func(pt int, m *nitro.Nitro, a, b unsafe.Pointer) {
			if g, ok := gates.Load(m); ok {
				g.(*gcGate).hook(pt, a, b)
			}
			if Extra != nil {
				Extra(pt, m, a, b)
			}
		}
	})
}

func Open(c Cfg) *DB {
	installHook()
	cfg := nitro.DefaultConfig()
	if c.KV {
		cfg.SetKeyComparator(nitro.CompareKV)
	}
	d := &DB{Cfg: c}
	if c.MM {
		if c.Guard {
			mk := NewGuard
			if FastGuard {
				mk = NewFastGuard
			}
			g, err := mk(GuardSlots, 1)
			if err != nil {
				panic("guard allocator: " + err.Error())
			}
			g.OnEvent = MemEvent
			d.G, d.Mem = g, g
		} else {
			d.A = NewAlloc()
			d.A.OnEvent = MemEvent
			d.Mem = d.A
		}
		cfg.UseMemoryMgmt(d.Mem.Malloc, d.Mem.Free)
	}
	if c.Delta {
		cfg.UseDeltaInterleaving()
	}
	d.Nitro = nitro.NewWithConfig(cfg)
	d.attach(c)
	return d
}

func (d *DB) attach(c Cfg) {
	d.gate = newGate(c.Hold)
	gates.Store(d.Nitro, d.gate)
	if c.Writers < 1 {
		c.Writers = 1
	}
	d.Cfg.Writers = c.Writers
	for i := 0; i < c.Writers; i++ {
		d.W = append(d.W, d.NewWriter())
	}
	d.store = d.VerifStore()
}

// Refresh re-reads the store pointer (LoadFromDisk replaces it).
func (d *DB) RefreshStore() { d.store = d.VerifStore() }

// Freed reports whether p is the start of a block that the instance has already returned to its allocator
// (always false with Go-managed memory).
func (d *DB) Freed(p unsafe.Pointer) bool {
	switch {
	case d.G != nil:
		return d.G.IsDead(p)
	case d.A != nil:
		return d.A.IsDead(p)
	}
	return false
}

func (d *DB) Shutdown() {
	d.gate.releaseAll()
	d.Nitro.Close()
	gates.Delete(d.Nitro)
}

// ---------------------------------------------------------------- item encoding

// Keys have different lengths (5..10 bytes): the order is decided by the fixed-width number, the padding only
// varies the length (code that recycles buffers across items of different sizes must not depend on equal lengths).
var keyPad = []string{"", "_", "__", "___", "____", "_____"}

func (d *DB) Item(k, v int) []byte {
	key := []byte(fmt.Sprintf("k%04d", k))
	if !d.Cfg.FixKey {
		key = append(key, keyPad[((k%6)*7+k/6)%6]...)
	}
	if d.Cfg.KV {
		return nitro.KVToBytes(key, []byte(fmt.Sprintf("v%d", v)))
	}
	return key
}

func (d *DB) Decode(b []byte) [2]int {
	var k, v int
	if d.Cfg.KV {
		kb, vb := nitro.KVFromBytes(b)
		fmt.Sscanf(string(kb), "k%d", &k)
		fmt.Sscanf(string(vb), "v%d", &v)
	} else {
		fmt.Sscanf(string(b), "k%d", &k)
	}
	return [2]int{k, v}
}

// ---------------------------------------------------------------- observations

// Phys walks level 0 of the store: every linked node as [k, v, born, dead, marked].
func (d *DB) Phys() (out [][5]int, walkmem int64) {
	s := d.store
	tail := s.TailNode()
	n, _ := skiplist.VerifNext(s.HeadNode(), 0)
	for n != tail && n != nil {
		next, marked := skiplist.VerifNext(n, 0)
		kv := d.Decode(nitro.VerifItemBytes(n.Item()))
		born, dead := nitro.VerifItemSn(n.Item())
		m := 0
		if marked {
			m = 1
		}
		out = append(out, [5]int{kv[0], kv[1], int(born), int(dead), m})
		walkmem += int64(s.Size(n))
		n = next
		if len(out) > 1000000 {
			break
		}
	}
	if out == nil {
		out = [][5]int{}
	}
	return
}

func listMem(s *skiplist.Skiplist) (mem int64, n int) {
	tail := s.TailNode()
	x, _ := skiplist.VerifNext(s.HeadNode(), 0)
	for x != tail && x != nil {
		mem += int64(s.Size(x))
		n++
		x, _ = skiplist.VerifNext(x, 0)
	}
	return
}

// Stats is the parsed DumpStats report.
type Stats struct {
	NodeCount   int   `json:"node_count"`
	SoftDeletes int64 `json:"soft_deletes"`
	Memory      int64 `json:"memory_used"`
	Allocs      int64 `json:"node_allocs"`
	Frees       int64 `json:"node_frees"`
}

func (d *DB) Stats() Stats {
	var st Stats
	if err := json.Unmarshal([]byte(d.DumpStats()), &st); err != nil {
		panic("DumpStats is not JSON: " + err.Error())
	}
	return st
}

// Observe adds the cheap global observations to an event.
func (d *DB) Observe(e map[string]interface{}) {
	phys, walkmem := d.Phys()
	st := d.Stats()
	live, retired := d.VerifSnapLists()
	m1, n1 := listMem(live)
	m2, n2 := listMem(retired)
	e["phys"] = phys
	e["items"] = d.ItemsCount()
	e["cur"] = d.GetCurrSn()
	e["lastgc"] = d.GetLastGCSn()
	e["nodes"] = st.NodeCount
	e["softdel"] = st.SoftDeletes
	e["statmem"] = st.Memory
	e["walkmem"] = walkmem
	e["mem"] = d.MemoryInUse()
	e["snapmem"] = m1 + m2
	e["nopen"] = n1
	e["nretired"] = n2
	var sns []int
	for _, s := range d.GetSnapshots() {
		sn, _, _ := nitro.VerifSnapInfo(s)
		sns = append(sns, int(sn))
	}
	if sns == nil {
		sns = []int{}
	}
	e["opensn"] = sns
	e["pending"] = d.gate.pendingSns()
}

// Scan reads a snapshot through a fresh iterator with the given refresh rate.
func (d *DB) Scan(s *nitro.Snapshot, rate int) (items [][2]int, ok bool) {
	it := s.NewIterator()
	if it == nil {
		return nil, false
	}
	defer it.Close()
	if rate > 0 {
		it.SetRefreshRate(rate)
	}
	items = [][2]int{}
	limit := 4*d.Stats().NodeCount + 64 // a scan can never legitimately be longer than the structure
	for it.SeekFirst(); it.Valid(); it.Next() {
		items = append(items, d.Decode(it.Get()))
		if len(items) > limit {
			break
		}
	}
	return items, true
}

// ---------------------------------------------------------------- GC gate

type gcEntry struct {
	sn       int
	list     unsafe.Pointer
	begun    bool
	done     bool
	released bool
	release  chan struct{}
}

type gcGate struct {
	mu      sync.Mutex
	cond    *sync.Cond
	hold    bool
	open    bool // releaseAll called: nothing blocks any more
	entries []*gcEntry
}

func newGate(hold bool) *gcGate {
	g := &gcGate{hold: hold}
	g.cond = sync.NewCond(&g.mu)
	return g
}

func (g *gcGate) hook(pt int, a, b unsafe.Pointer) {
	switch pt {
	case nitro.VPGCSend:
		sn, _, _ := nitro.VerifSnapInfo(nitro.VerifSnapOf(a))
		g.mu.Lock()
		g.entries = append(g.entries, &gcEntry{sn: int(sn), list: b, release: make(chan struct{})})
		g.cond.Broadcast()
		g.mu.Unlock()
	case nitro.VPGCListBegin:
		g.mu.Lock()
		var e *gcEntry
		for _, x := range g.entries {
			if !x.begun && x.list == a {
				e = x
				break
			}
		}
		if e == nil { // unknown list (sent before the gate existed): let it through
			g.mu.Unlock()
			return
		}
		e.begun = true
		g.cond.Broadcast()
		blocked := g.hold && !g.open
		if !blocked {
			e.released = true
		}
		g.mu.Unlock()
		if blocked {
			<-e.release
		}
	case nitro.VPGCListEnd:
		g.mu.Lock()
		for _, x := range g.entries {
			if x.begun && x.released && !x.done && x.list == a {
				x.done = true
				break
			}
		}
		g.cond.Broadcast()
		g.mu.Unlock()
	}
}

func (g *gcGate) pendingSns() []int {
	g.mu.Lock()
	defer g.mu.Unlock()
	out := []int{}
	for _, x := range g.entries {
		if !x.done {
			out = append(out, x.sn)
		}
	}
	return out
}

func waitCond(c *sync.Cond, pred func() bool, d time.Duration) bool {
	deadline := time.Now().Add(d)
	stop := make(chan struct{})
	defer close(stop)
	go func() { // periodic wake-up so that the deadline is noticed
		t := time.NewTicker(20 * time.Millisecond)
		defer t.Stop()
		for {
			select {
			case <-stop:
				return
			case <-t.C:
				c.Broadcast()
			}
		}
	}()
	for !pred() {
		if time.Now().After(deadline) {
			return false
		}
		c.Wait()
	}
	return true
}

// Picked waits until every released list that a worker can take has been taken, and returns the
// snapshot numbers of the lists currently held at the gate (begun, not done), in send order.
func (d *DB) Picked() ([]int, error) {
	g := d.gate
	g.mu.Lock()
	defer g.mu.Unlock()
	nw := d.Cfg.Writers
	ok := waitCond(g.cond, func() bool {
		busy, waiting := 0, 0
		for _, x := range g.entries {
			if x.begun && !x.done {
				busy++
			} else if !x.begun {
				waiting++
			}
		}
		if !g.hold {
			return busy == 0 && waiting == 0
		}
		return waiting == 0 || busy >= nw
	}, 30*time.Second)
	if !ok {
		return nil, fmt.Errorf("gate: collection workers did not pick up the released lists within 30s")
	}
	out := []int{}
	for _, x := range g.entries {
		if x.begun && !x.done {
			out = append(out, x.sn)
		}
	}
	return out, nil
}

// Unlink lets the worker holding snapshot sn's list proceed and waits until it has finished the list.
func (d *DB) Unlink(sn int) error {
	g := d.gate
	g.mu.Lock()
	defer g.mu.Unlock()
	var e *gcEntry
	for _, x := range g.entries {
		if x.sn == sn && x.begun && !x.done && !x.released {
			e = x
		}
	}
	if e == nil {
		return fmt.Errorf("gate: list of snapshot %d is not held by a worker", sn)
	}
	e.released = true
	close(e.release)
	if !waitCond(g.cond, func() bool { return e.done }, 30*time.Second) {
		return fmt.Errorf("gate: worker did not finish list %d within 30s", sn)
	}
	return nil
}

// Quiesce (non-hold mode) waits until all released lists have been processed.
func (d *DB) Quiesce() error {
	_, err := d.Picked()
	return err
}

func (g *gcGate) releaseAll() {
	g.mu.Lock()
	g.open = true
	for _, x := range g.entries {
		if x.begun && !x.done && !x.released {
			x.released = true
			close(x.release)
		}
	}
	g.mu.Unlock()
}

// DrainGate releases everything held and waits for the workers to finish (used before Close).
func (d *DB) DrainGate() error {
	d.gate.releaseAll()
	g := d.gate
	g.mu.Lock()
	defer g.mu.Unlock()
	if !waitCond(g.cond, func() bool {
		for _, x := range g.entries {
			if !x.done {
				return false
			}
		}
		return true
	}, 30*time.Second) {
		return fmt.Errorf("gate: workers did not drain within 30s")
	}
	return nil
}
