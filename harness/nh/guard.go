package nh

import (
	"fmt"
	"os"
	"sync"
	"syscall"
	"unsafe"
)

// Guard is a guard-page allocator: every block lives at the end of its own page(s), followed by an
// inaccessible guard page; Free makes the block's pages inaccessible and never reuses them.  A read
// or write after free (or past the end of a block) faults immediately.  Layout is deterministic: slot i
// starts at Base + i*SlotSize (data pages, then one guard page), so that a fault address can be
// attributed to a slot (and to "data" = use after free, or "guard" = overflow) by whoever sees it.
type Guard struct {
	mu       sync.Mutex
	arena    []byte
	Base     uintptr
	SlotSize uintptr // bytes per slot = (DataPages+1) * page
	page     uintptr
	dataPg   uintptr
	next     uintptr // next free slot index
	nslots   uintptr
	state    []byte // per slot: 0 unused, 1 live, 2 freed
	sizes    []int32
	Mallocs  int64
	Frees    int64
	Errs     []string
	OnEvent  func(kind string, id int64, size int)
	big      *Alloc // blocks larger than a slot fall back to the registry allocator
	fast     bool   // no guard page between slots and no system call on Malloc: only use after free is detected
}

// NewGuard reserves nslots slots of dataPages data pages each (virtual memory only).
func NewGuard(nslots, dataPages int) (*Guard, error) { return newGuard(nslots, dataPages, false) }

// NewFastGuard is the variant for high allocation rates: the arena starts accessible, slots have no guard page, Malloc
// makes no system call; Free still makes the block's pages inaccessible for ever, so a use after free faults.
func NewFastGuard(nslots, dataPages int) (*Guard, error) { return newGuard(nslots, dataPages, true) }

func newGuard(nslots, dataPages int, fast bool) (*Guard, error) {
	pg := uintptr(os.Getpagesize())
	g := &Guard{page: pg, dataPg: uintptr(dataPages), nslots: uintptr(nslots), big: NewAlloc(), fast: fast}
	g.SlotSize = (g.dataPg + 1) * pg
	prot := syscall.PROT_NONE
	if fast {
		g.SlotSize = g.dataPg * pg
		prot = syscall.PROT_READ | syscall.PROT_WRITE
	}
	mem, err := syscall.Mmap(-1, 0, int(g.SlotSize*g.nslots), prot, syscall.MAP_ANON|syscall.MAP_PRIVATE|syscall.MAP_NORESERVE)
	if err != nil {
		return nil, err
	}
	g.arena = mem
	g.Base = uintptr(unsafe.Pointer(&mem[0]))
	g.state = make([]byte, nslots)
	g.sizes = make([]int32, nslots)
	return g, nil
}

func (g *Guard) slotOf(p unsafe.Pointer) (uintptr, bool) {
	a := uintptr(p)
	if a < g.Base || a >= g.Base+g.SlotSize*g.nslots {
		return 0, false
	}
	return (a - g.Base) / g.SlotSize, true
}

func (g *Guard) Malloc(n int) unsafe.Pointer {
	need := (uintptr(n) + 7) &^ 7
	if need > g.dataPg*g.page {
		return g.big.Malloc(n)
	}
	g.mu.Lock()
	defer g.mu.Unlock()
	if g.next >= g.nslots {
		g.Errs = append(g.Errs, "guard arena exhausted")
		return g.big.Malloc(n)
	}
	i := g.next
	g.next++
	off := i * g.SlotSize
	data := g.arena[off : off+g.dataPg*g.page]
	if !g.fast {
		if err := syscall.Mprotect(data, syscall.PROT_READ|syscall.PROT_WRITE); err != nil {
			panic("mprotect: " + err.Error())
		}
	}
	g.state[i] = 1
	g.sizes[i] = int32(n)
	g.Mallocs++
	if g.OnEvent != nil {
		g.OnEvent("malloc", int64(i)+1, n)
	}
	// block ends where the guard page begins
	start := off + g.dataPg*g.page - need
	return unsafe.Pointer(&g.arena[start])
}

func (g *Guard) Free(p unsafe.Pointer) {
	i, ok := g.slotOf(p)
	if !ok {
		g.big.Free(p)
		return
	}
	g.mu.Lock()
	defer g.mu.Unlock()
	need := (uintptr(g.sizes[i]) + 7) &^ 7
	want := g.Base + i*g.SlotSize + g.dataPg*g.page - need
	switch {
	case g.state[i] == 2:
		g.Errs = append(g.Errs, fmt.Sprintf("double free of block %d (size %d)", i+1, g.sizes[i]))
		if g.OnEvent != nil {
			g.OnEvent("doublefree", int64(i)+1, int(g.sizes[i]))
		}
		return
	case g.state[i] != 1 || uintptr(p) != want:
		g.Errs = append(g.Errs, fmt.Sprintf("free of a pointer that is not the start of a live block: %x", uintptr(p)))
		if g.OnEvent != nil {
			g.OnEvent("badfree", int64(i)+1, 0)
		}
		return
	}
	off := i * g.SlotSize
	if err := syscall.Mprotect(g.arena[off:off+g.dataPg*g.page], syscall.PROT_NONE); err != nil {
		panic("mprotect: " + err.Error())
	}
	g.state[i] = 2
	g.Frees++
	if g.OnEvent != nil {
		g.OnEvent("free", int64(i)+1, int(g.sizes[i]))
	}
}

func (g *Guard) Counts() (mallocs, frees int64, live int, errs []string) {
	g.mu.Lock()
	defer g.mu.Unlock()
	for _, s := range g.state[:g.next] {
		if s == 1 {
			live++
		}
	}
	bm, bf, bl, be := g.big.Counts()
	return g.Mallocs + bm, g.Frees + bf, live + bl, append(append([]string(nil), g.Errs...), be...)
}

// Describe explains a fault address for the parent process.
func (g *Guard) Describe() string {
	return fmt.Sprintf("GUARD base=%d slot=%d datapages=%d page=%d nslots=%d", g.Base, g.SlotSize, g.dataPg, g.page, g.nslots)
}

// IsDead reports whether p points into a block that has been freed.
func (g *Guard) IsDead(p unsafe.Pointer) bool {
	i, ok := g.slotOf(p)
	if !ok {
		return g.big.IsDead(p)
	}
	g.mu.Lock()
	defer g.mu.Unlock()
	return g.state[i] == 2
}
