#!/bin/sh
# Offline setup: verify the tools and warm the Go build cache (the checks rebuild the harness themselves).
set -e
export GOFLAGS=-mod=mod GOPROXY=off GOSUMDB=off GOTOOLCHAIN=local
cd /verif/harness
go build -tags verif -o bin/vh-verif ./cmd/vh
java -cp /opt/veriftools/tla/tla2tools.jar tlc2.TLC -h >/dev/null 2>&1 || true
mkdir -p /verif/work /verif/evidence
echo setup ok
