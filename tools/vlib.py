"""Shared machinery for /verif checks: TLC runner, Go harness builder, evidence writer,
known-findings matcher.  Standard library only (must run offline on the system python3)."""
import json, os, re, shutil, subprocess, sys, time, hashlib

VERIF = os.path.dirname(os.path.dirname(os.path.abspath(__file__)))
REPO = os.environ.get("VERIF_REPO", "/repo")
SPEC = os.path.join(VERIF, "spec")
WORK = os.path.join(VERIF, "work")
EVID = os.path.join(VERIF, "evidence")
REPLAYS = os.path.join(VERIF, "replays")
HARNESS = os.path.join(VERIF, "harness")
NCPU = os.cpu_count() or 4

GOENV = dict(os.environ, GOFLAGS="-mod=mod", GOPROXY="off", GOSUMDB="off", GOTOOLCHAIN="local",
             CGO_ENABLED=os.environ.get("CGO_ENABLED", "1"))


class Infra(Exception):
    """Infrastructure problem (exit 2): never a verdict."""


def log(*a):
    print(*a, file=sys.stderr, flush=True)


def seed():
    try:
        return int(os.environ.get("VERIF_SEED", "1"))
    except ValueError:
        return 1


def workdir(name):
    d = os.path.join(WORK, "%s.%d" % (name, os.getpid()))
    shutil.rmtree(d, ignore_errors=True)
    os.makedirs(d)
    return d


def cleanup(d):
    if os.environ.get("VERIF_KEEP"):
        return
    shutil.rmtree(d, ignore_errors=True)


# ------------------------------------------------------------------ Go harness

_built = {}


def build_harness(tags="verif"):
    """Build /verif/harness/cmd/vh against /repo's *current working tree* (replace directive)."""
    key = tags
    if key in _built:
        return _built[key]
    out = os.path.join(HARNESS, "bin", "vh-" + tags.replace(",", "_"))
    os.makedirs(os.path.dirname(out), exist_ok=True)
    t0 = time.time()
    cmd = ["go", "build", "-tags", tags, "-o", out, "./cmd/vh"]
    p = subprocess.run(cmd, cwd=HARNESS, env=GOENV, stdout=subprocess.PIPE, stderr=subprocess.STDOUT, text=True)
    if p.returncode != 0:
        # A tree that does not compile with hooks on cannot be judged.
        raise Infra("harness build failed:\n" + p.stdout[-4000:])
    log("[build] harness built in %.1fs" % (time.time() - t0))
    _built[key] = out
    return out


def run_harness(args, timeout=600, cwd=None, env=None, tags="verif", check=True, stdin=None):
    exe = build_harness(tags)
    e = dict(os.environ)
    e["GOMAXPROCS"] = e.get("GOMAXPROCS", str(NCPU))
    if env:
        e.update(env)
    try:
        p = subprocess.run([exe] + [str(a) for a in args], cwd=cwd, env=e, stdout=subprocess.PIPE,
                           stderr=subprocess.PIPE, text=True, timeout=timeout, input=stdin)
    except subprocess.TimeoutExpired:
        raise Infra("harness timed out: %s" % " ".join(map(str, args)))
    if check and p.returncode != 0:
        raise Infra("harness %s failed rc=%d\n%s\n%s" % (args[0], p.returncode, p.stdout[-2000:], p.stderr[-4000:]))
    return p


# ------------------------------------------------------------------ TLC

TLC_JAR = "/opt/veriftools/tla/tla2tools.jar:/opt/veriftools/tla/CommunityModules-deps.jar"


class TLCResult(object):
    def __init__(self):
        self.rc = None
        self.out = ""
        self.generated = 0
        self.distinct = 0
        self.depth = 0
        self.violated = None      # invariant / property name
        self.kind = None          # 'invariant' | 'postcondition' | 'assert' | 'deadlock' | 'error' | None
        self.trace = []           # list of (action_label, {var: text})
        self.wall = 0.0
        self.coverage = {}

    @property
    def ok(self):
        return self.rc == 0 and self.kind is None


def _parse_trace(out):
    """Parse TLC's textual error trace: 'State N: <Action line ...>' followed by /\\ var = value lines."""
    trace = []
    cur = None
    for line in out.splitlines():
        m = re.match(r"^State (\d+): <(.*)>\s*$", line)
        if m:
            cur = (m.group(2), {})
            trace.append(cur)
            continue
        if cur is not None:
            m = re.match(r"^/\\ (\w+) = (.*)$", line)
            if m:
                cur[1][m.group(1)] = m.group(2)
                last = m.group(1)
                continue
            if line.strip() == "":
                cur = None
            elif cur[1]:
                # continuation of a multi-line value
                k = list(cur[1].keys())[-1]
                cur[1][k] += " " + line.strip()
    return trace


def run_tlc(tla, cfg, wd, workers=None, timeout=900, simulate=None, depth=None, extra=(), heap=None,
            dfs=False, seed_=None, coverage=False):
    """Run TLC in wd (spec files must already be there).  Returns TLCResult; raises Infra on time-out/crash."""
    res = TLCResult()
    meta = os.path.join(wd, "meta." + os.path.splitext(os.path.basename(cfg))[0])
    shutil.rmtree(meta, ignore_errors=True)
    jopts = ["-XX:+UseParallelGC", "-Xss64m"]
    if heap:
        jopts.append("-Xmx" + heap)
    if dfs:
        jopts.append("-Dtlc2.tool.queue.IStateQueue=StateDeque")
    cmd = ["java"] + jopts + ["-cp", TLC_JAR, "tlc2.TLC", "-metadir", meta, "-config", cfg,
                              "-workers", str(workers or NCPU), "-noGenerateSpecTE"]
    if simulate:
        cmd += ["-simulate", simulate]
    if depth:
        cmd += ["-depth", str(depth)]
    if seed_ is not None:
        cmd += ["-seed", str(seed_)]
    if coverage:
        cmd += ["-coverage", "1"]
    cmd += list(extra) + [tla]
    t0 = time.time()
    try:
        p = subprocess.run(cmd, cwd=wd, stdout=subprocess.PIPE, stderr=subprocess.STDOUT, text=True, timeout=timeout)
    except subprocess.TimeoutExpired as e:
        out = e.stdout or ""
        if isinstance(out, bytes):
            out = out.decode("utf-8", "replace")
        raise Infra("TLC timed out after %ds on %s/%s\n%s" % (timeout, tla, cfg, out[-1500:]))
    finally:
        shutil.rmtree(meta, ignore_errors=True)
    res.wall = time.time() - t0
    res.rc = p.returncode
    res.out = out = p.stdout
    m = re.findall(r"(\d+) states generated, (\d+) distinct states found", out)
    if m:
        res.generated, res.distinct = int(m[-1][0]), int(m[-1][1])
    m = re.search(r"The depth of the complete state graph search is (\d+)", out)
    if m:
        res.depth = int(m.group(1))
    m = re.search(r"Invariant (\S+) is violated", out)
    if m:
        res.kind, res.violated = "invariant", m.group(1)
    m2 = re.search(r"Action property (\S+) is violated", out)
    if m2:
        res.kind, res.violated = "invariant", m2.group(1)
    m3 = re.search(r"Temporal propert(?:y (\S+) was|ies were) violated", out)
    if res.kind is None and m3:
        res.kind, res.violated = "temporal", (m3.group(1) or "temporal property")
    if res.kind is None and re.search(r"Deadlock reached", out):
        res.kind, res.violated = "deadlock", "Deadlock"
    if res.kind is None:
        m = re.search(r"The postcondition (\S+)?.*(is violated|has been violated|evaluated to FALSE)", out) or \
            re.search(r"POSTCONDITION.*(violated|FALSE)", out)
        if m:
            res.kind, res.violated = "postcondition", "POSTCONDITION"
    if res.kind is None:
        m = re.search(r"The first argument of Assert evaluated to FALSE; the second argument was:\s*\n?\"?([^\"\n]*)", out)
        if m:
            res.kind, res.violated = "assert", m.group(1).strip()
    if res.kind is None and res.rc != 0:
        res.kind, res.violated = "error", "TLC rc=%d" % res.rc
    if res.kind in ("invariant", "deadlock", "assert"):
        res.trace = _parse_trace(out)
    if coverage:
        for mm in re.finditer(r"^<(\w+) line (\d+), col \d+ to line \d+, col \d+ of module (\w+)>: (\d+):(\d+)", out, re.M):
            res.coverage[mm.group(1)] = res.coverage.get(mm.group(1), 0) + int(mm.group(5))
    if res.kind == "error":
        raise Infra("TLC failed on %s/%s:\n%s" % (tla, cfg, out[-3000:]))
    return res


def run_apalache(tla, wd, init, inv, length, timeout=900):
    """One Apalache obligation (bounded symbolic check of `inv` from `init` up to `length` steps).  Returns wall seconds;
    raises Infra on time-out, tool failure or a counterexample (a model-level matter, never a verdict on the code)."""
    out_dir = os.path.join(wd, "apalache-out")
    cmd = ["apalache-mc", "check", "--init=" + init, "--inv=" + inv, "--length=%d" % length, "--out-dir=" + out_dir, tla]
    t0 = time.time()
    try:
        p = subprocess.run(cmd, cwd=wd, stdout=subprocess.PIPE, stderr=subprocess.STDOUT, text=True, timeout=timeout)
    except subprocess.TimeoutExpired:
        raise Infra("Apalache timed out on %s (%s => %s, length %d)" % (tla, init, inv, length))
    finally:
        shutil.rmtree(out_dir, ignore_errors=True)
    if "EXITCODE: OK" not in p.stdout:
        raise Infra("Apalache did not discharge %s => %s (length %d) of %s:\n%s" % (init, inv, length, tla, p.stdout[-1500:]))
    return time.time() - t0


def stage_specs(wd, names):
    """Copy spec files (and every .tla, for EXTENDS) into the working directory."""
    for f in os.listdir(SPEC):
        if f.endswith(".tla") or f in names:
            shutil.copy(os.path.join(SPEC, f), os.path.join(wd, f))
    for n in names:
        if not os.path.exists(os.path.join(wd, n)):
            raise Infra("missing spec file " + n)


def parse_tla_value(s):
    """Tiny parser for TLC-printed values (ints, strings, booleans, sets, tuples, records, functions)."""
    pos = [0]
    s = s.strip()

    def ws():
        while pos[0] < len(s) and s[pos[0]].isspace():
            pos[0] += 1

    def peek(t):
        ws()
        return s.startswith(t, pos[0])

    def eat(t):
        ws()
        if not s.startswith(t, pos[0]):
            raise ValueError("expected %r at %d in %r" % (t, pos[0], s[max(0, pos[0] - 20):pos[0] + 20]))
        pos[0] += len(t)

    def val():
        ws()
        if peek("<<"):
            eat("<<")
            items = []
            if peek(">>"):
                eat(">>")
                return items
            while True:
                items.append(val())
                if peek(","):
                    eat(",")
                else:
                    break
            eat(">>")
            return items
        if peek("{"):
            eat("{")
            items = []
            if peek("}"):
                eat("}")
                return {"__set__": items}
            while True:
                items.append(val())
                if peek(","):
                    eat(",")
                else:
                    break
            eat("}")
            return {"__set__": items}
        if peek("["):
            eat("[")
            rec = {}
            while True:
                ws()
                m = re.match(r"(\w+)\s*\|->", s[pos[0]:])
                if not m:
                    raise ValueError("record field expected at %d" % pos[0])
                pos[0] += m.end()
                rec[m.group(1)] = val()
                if peek(","):
                    eat(",")
                else:
                    break
            eat("]")
            return rec
        if peek("("):
            # function printed as (a :> b @@ c :> d)
            eat("(")
            fn = {}
            while True:
                k = val()
                eat(":>")
                v = val()
                fn[json.dumps(k) if not isinstance(k, (str, int)) else k] = v
                if peek("@@"):
                    eat("@@")
                else:
                    break
            eat(")")
            return fn
        if peek('"'):
            m = re.match(r'"((?:[^"\\]|\\.)*)"', s[pos[0]:])
            pos[0] += m.end()
            return m.group(1)
        m = re.match(r"-?\d+", s[pos[0]:])
        if m:
            pos[0] += m.end()
            return int(m.group(0))
        m = re.match(r"\w+", s[pos[0]:])
        if m:
            pos[0] += m.end()
            w = m.group(0)
            return True if w == "TRUE" else False if w == "FALSE" else w
        raise ValueError("cannot parse at %d: %r" % (pos[0], s[pos[0]:pos[0] + 30]))

    return val()


# ------------------------------------------------------------------ evidence / findings

def write_evidence(pid, tier, level, coverage, assumptions, wall, violations=0):
    os.makedirs(EVID, exist_ok=True)
    ev = {"property_id": pid, "tier": tier, "seed": seed(), "level": level, "coverage": coverage,
          "assumptions": assumptions, "wall_s": round(wall, 2), "violations": violations}
    tmp = os.path.join(EVID, pid + ".json.tmp")
    with open(tmp, "w") as f:
        json.dump(ev, f, indent=1, sort_keys=True)
    os.replace(tmp, os.path.join(EVID, pid + ".json"))


def load_known():
    p = os.path.join(VERIF, "known_findings.json")
    if not os.path.exists(p):
        return {"findings": [], "fixed": []}
    return json.load(open(p))


def save_replay(pid, name, files, meta):
    """Copy the failing artefacts to /verif/replays/<pid>/<name>/ and return the directory."""
    d = os.path.join(REPLAYS, pid, name)
    shutil.rmtree(d, ignore_errors=True)
    os.makedirs(d)
    for src in files:
        if src and os.path.exists(src):
            if os.path.isdir(src):
                shutil.copytree(src, os.path.join(d, os.path.basename(src)))
            else:
                shutil.copy(src, d)
    with open(os.path.join(d, "meta.json"), "w") as f:
        json.dump(meta, f, indent=1)
    return d


def sha(s):
    return hashlib.sha1(s.encode()).hexdigest()[:12]


# ------------------------------------------------------------------ check context

class Ctx(object):
    """Per-run bookkeeping: TLC statistics, traces validated, violations, evidence."""

    def __init__(self, pid, tier, replay=None):
        self.pid, self.tier, self.replay = pid, tier, replay
        self.t0 = time.time()
        self.wd = workdir(pid)
        self.states = 0
        self.transitions = 0
        self.traces = 0
        self.events = 0
        self.samples = []
        self.violations = []     # dicts {msg, replay}
        self.known_hits = []     # strings
        self.assumptions = []
        self.extra = {}
        self.exhaustive = None
        self.rule = ""
        self.mc_runs = []
        self.thorough = tier == "thorough"

    # -- M1
    def model_check(self, tla, cfg, timeout=1200, dump=None, **kw):
        stage_specs(self.wd, [cfg])
        extra = list(kw.pop("extra", ()))
        if dump:
            extra += ["-dump", "dot,actionlabels", dump]
        r = run_tlc(tla, cfg, self.wd, timeout=timeout, extra=extra, **kw)
        self.states += r.distinct
        self.transitions += r.generated
        self.mc_runs.append({"spec": tla, "cfg": cfg, "distinct_states": r.distinct, "states_generated": r.generated,
                             "depth": r.depth, "wall_s": round(r.wall, 1), "result": r.violated or "no error"})
        log("[M1] %s/%s: %d distinct, %d generated, depth %d, %.1fs, %s" %
            (tla, cfg, r.distinct, r.generated, r.depth, r.wall, r.violated or "ok"))
        return r

    # -- M2
    def validate(self, tla, cfg, trace, what, ntraces=1, timeout=1200, dfs=False, workers=1, tracefile="trace.ndjson"):
        """Validate an NDJSON trace recorded from the real code.  Returns None if accepted, else a dict
        {line, msg, kind}.  The trace spec reads ./trace.ndjson in the working directory."""
        stage_specs(self.wd, [cfg])
        dst = os.path.join(self.wd, tracefile)
        if os.path.abspath(trace) != dst:
            shutil.copy(trace, dst)
        nev = sum(1 for _ in open(dst))
        r = run_tlc(tla, cfg, self.wd, timeout=timeout, workers=workers, dfs=dfs)
        self.events += nev
        self.transitions += r.generated
        self.states += r.distinct
        drift = re.findall(r'<<\s*"DRIFT",\s*(\d+),\s*"([^"]*)"\s*>>', r.out)
        if drift:
            log("MODEL-DRIFT (%s): line %s: %s" % (what, drift[0][0], drift[0][1]))
            self.extra.setdefault("model_drift", []).append({"what": what, "line": int(drift[0][0]), "msg": drift[0][1]})
        if r.ok:
            self.traces += ntraces
            log("[M2] %s: %d traces / %d events accepted by %s (%.1fs)" % (what, ntraces, nev, tla, r.wall))
            return None
        bad = re.findall(r'<<\s*"BAD",\s*(\d+),\s*"([^"]*)"\s*>>', r.out)
        if r.kind == "invariant" and bad:
            return {"line": int(bad[0][0]), "msg": bad[0][1], "kind": "property", "inv": r.violated}
        if r.kind == "invariant":
            ln = 0
            if r.trace and "l" in r.trace[-1][1]:
                try:
                    ln = int(r.trace[-1][1]["l"])
                except ValueError:
                    pass
            return {"line": ln, "msg": "invariant %s violated" % r.violated, "kind": "property", "inv": r.violated}
        if r.kind == "deadlock":
            ln = 0
            if r.trace and "l" in r.trace[-1][1]:
                try:
                    ln = int(r.trace[-1][1]["l"])
                except ValueError:
                    pass
            return {"line": ln, "msg": "trace not a behaviour of the specification (no action matches line %d)" % ln,
                    "kind": "reject"}
        if r.kind == "assert":
            return {"line": 0, "msg": "Assert: " + str(r.violated), "kind": "property"}
        raise Infra("trace validation ended unexpectedly (%s %s):\n%s" % (r.kind, r.violated, r.out[-2000:]))

    def add_sample(self, s, cap=6):
        if len(self.samples) < cap:
            self.samples.append(s)

    def violation(self, msg, files=(), meta=None, name=None):
        name = name or "v%d-seed%d" % (len(self.violations) + 1, seed())
        m = {"property": self.pid, "tier": self.tier, "seed": seed(), "what": msg}
        m.update(meta or {})
        d = save_replay(self.pid, name, files, m)
        self.violations.append({"msg": msg, "replay": d})
        log("violation: %s -> %s" % (msg, d))
        return d

    def finish(self):
        known = load_known()
        rc = 0
        real = []
        for v in self.violations:
            hit = None
            for kf in known.get("findings", []):
                if kf.get("property") == self.pid and re.search(kf["match"], v["msg"]):
                    hit = kf
                    break
            if hit:
                print("KNOWN-FINDING: property=%s %s (%s)" % (self.pid, hit["id"], hit["what"]))
            else:
                real.append(v)
        for k in self.known_hits:
            print("KNOWN-FINDING: property=%s %s" % (self.pid, k))
        for v in real:
            print("VIOLATION property=%s replay=%s   # %s" % (self.pid, v["replay"], v["msg"]))
            rc = 1
        cov = {"states": self.states, "transitions": self.transitions,
               "traces_validated_against_impl": self.traces, "events_validated": self.events,
               "samples": self.samples or ["(none)"], "model_checking_runs": self.mc_runs,
               "rule": self.rule}
        if self.exhaustive is not None:
            cov["exhaustive"] = self.exhaustive
        cov.update(self.extra)
        write_evidence(self.pid, self.tier, "model_checking", cov, self.assumptions, time.time() - self.t0, len(real))
        cleanup(self.wd)
        sys.stdout.flush()
        return rc


def cut_scenario(trace, line, is_reset):
    """Return (first_line_no, lines) of the scenario (delimited by reset events) that contains 1-based `line`."""
    lines = open(trace).read().splitlines()
    line = max(1, min(line, len(lines)))
    a = line - 1
    while a > 0 and not is_reset(json.loads(lines[a])):
        a -= 1
    b = line
    while b < len(lines) and not is_reset(json.loads(lines[b])):
        b += 1
    return a + 1, lines[a:b]


def judge_trace(ctx, tla, cfg, trace, what, ntraces, is_reset, script_of=None, **kw):
    """validate(); on a property failure cut out the failing scenario, save it as a replay and record
    a violation.  A 'reject' (trace is not a behaviour at all) is reported as infrastructure/model drift."""
    bad = ctx.validate(tla, cfg, trace, what, ntraces, **kw)
    if bad is None:
        return True
    if bad["kind"] == "reject":
        raise Infra("%s: %s" % (what, bad["msg"]))
    first, sc = cut_scenario(trace, bad["line"], is_reset)
    p = os.path.join(ctx.wd, "failing-trace.ndjson")
    with open(p, "w") as f:
        f.write("\n".join(sc) + "\n")
    ctx.violation("%s [%s, event %d of the failing scenario]" % (bad["msg"], what, bad["line"] - first + 1),
                  files=[p], meta={"trace_spec": tla, "cfg": cfg, "driver": what,
                                   "how_to_replay": "bin/check %s %s --replay <this dir> re-validates failing-trace.ndjson" % (ctx.pid, ctx.tier)})
    return False


def replay_dir(ctx, tla, cfg, is_reset):
    """--replay: re-validate the saved failing trace against the current specification."""
    p = os.path.join(ctx.replay, "failing-trace.ndjson")
    if not os.path.exists(p):
        raise Infra("no failing-trace.ndjson in " + ctx.replay)
    mf = os.path.join(ctx.replay, "meta.json")
    if os.path.exists(mf):
        # a shared driver may have recorded the failure with another trace specification than the check's main one
        m = json.load(open(mf))
        if m.get("trace_spec", tla) != tla and os.path.exists(os.path.join(SPEC, m["trace_spec"])) and m.get("cfg") and m["trace_spec"] != "SetLin.tla":
            tla, cfg = m["trace_spec"], m["cfg"]
            is_reset = lambda e: str(e.get("e", "")).endswith("Init")
    ok = judge_trace(ctx, tla, cfg, p, "replay", 1, is_reset)
    return ctx.finish()


def require_ops(ctx, scripts, what):
    """Vacuity guard for spec->implementation replay: TLC behaviours must translate into operations of the driver.
    (An action whose transitions TLC labels 'Next' is invisible to the translation and yields empty scripts.)"""
    nops = [sum(len(v) for v in s["procs"].values()) for s in scripts]
    withops = sum(1 for n in nops if n > 0)
    ctx.extra.setdefault("tlc_scripts", []).append({"what": what, "scripts": len(scripts), "with_operations": withops, "operations": sum(nops)})
    if not scripts or withops * 2 < len(scripts):
        raise Infra("%s: only %d of %d TLC-derived scripts contain any operation: the behaviour->script translation is broken (vacuous replay)" % (what, withops, len(scripts)))


def simulate_behaviours(tla, cfg, wd, num, depth, seed_, timeout=600, init_vars=()):
    """Run TLC in simulation mode and return the behaviours as lists of action labels ('A1(a1)', ...).
    With init_vars, each behaviour is (labels, {var: value}) for the initial state."""
    out = os.path.join(wd, "sim_" + os.path.splitext(cfg)[0])
    shutil.rmtree(out, ignore_errors=True)
    os.makedirs(out)
    r = run_tlc(tla, cfg, wd, workers=1, timeout=timeout, simulate="file=%s/b,num=%d" % (out, num), depth=depth, seed_=seed_)
    behs = []
    for f in sorted(os.listdir(out)):
        labels = []
        init = {}
        nstate = 0
        for line in open(os.path.join(out, f)):
            m = re.match(r"^\\\* <(\w+(?:\([^)]*\))?) line \d+", line)
            if m:
                nstate += 1
                if not m.group(1).startswith("Init"):
                    labels.append(m.group(1))
                continue
            if init_vars and nstate == 1:
                mv = re.match(r"^/\\ (\w+) = (.*)$", line)
                if mv and mv.group(1) in init_vars:
                    try:
                        init[mv.group(1)] = parse_tla_value(mv.group(2))
                    except Exception:
                        init[mv.group(1)] = mv.group(2)
        behs.append((labels, init) if init_vars else labels)
    shutil.rmtree(out, ignore_errors=True)
    return behs, r
