"""Walk TLC's `-dump dot,actionlabels` state graph and derive implementation test scripts:
one script per (greedy, edge-covering) path from an initial state."""
import re, random, collections
from vlib import parse_tla_value


def parse_dot(path, keep_labels=False, next_is_action=False):
    nodes = {}      # id -> label text
    init = []
    edges = collections.defaultdict(list)   # src -> [(dst, label)]
    nedges = 0
    node_re = re.compile(r'^(-?\d+) \[label="(.*)"(,style = filled)?\]')
    edge_re = re.compile(r'^(-?\d+) -> (-?\d+) \[label="([^"]*)"')
    with open(path) as f:
        for line in f:
            m = edge_re.match(line)
            if m:
                if m.group(3) == "Next" and m.group(1) != m.group(2) and not next_is_action:
                    # an action TLC could not name is invisible to the label->operation translation (vacuous replay)
                    from vlib import Infra
                    raise Infra("state graph %s has transitions labelled 'Next': wrap the action in a named operator" % path)
                edges[m.group(1)].append((m.group(2), m.group(3)))
                nedges += 1
                continue
            m = node_re.match(line)
            if m:
                if m.group(3):
                    init.append(m.group(1))
                    nodes[m.group(1)] = m.group(2)
                elif keep_labels:
                    nodes[m.group(1)] = m.group(2)
    return nodes, init, edges, nedges


def state_vars(label, names):
    """Extract selected variables of a dot node label as Python values."""
    txt = label.replace("\\n", "\n").replace("\\\\", "\\").replace('\\"', '"')
    out = {}
    cur = None
    buf = []
    for line in txt.split("\n"):
        m = re.match(r"^/\\ (\w+) = (.*)$", line)
        if m:
            if cur in names:
                out[cur] = parse_tla_value(" ".join(buf))
            cur, buf = m.group(1), [m.group(2)]
        else:
            buf.append(line.strip())
    if cur in names:
        out[cur] = parse_tla_value(" ".join(buf))
    return out


def parse_label(lbl):
    """'DoUpdate(1,2)' -> ['DoUpdate', 1, 2];  model values / strings stay strings."""
    m = re.match(r"^(\w+)(?:\((.*)\))?$", lbl)
    if not m:
        return [lbl]
    out = [m.group(1)]
    if m.group(2):
        for a in split_args(m.group(2)):
            a = a.strip()
            if re.match(r"^-?\d+$", a):
                out.append(int(a))
            elif a in ("TRUE", "FALSE"):
                out.append(a == "TRUE")
            else:
                try:
                    out.append(parse_tla_value(a))
                except Exception:
                    out.append(a.strip('"'))
    return out


def split_args(s):
    depth, cur, out = 0, "", []
    i = 0
    while i < len(s):
        c = s[i]
        if s.startswith("<<", i) or c in "{[(":
            depth += 1
            if s.startswith("<<", i):
                cur += "<<"
                i += 2
                continue
        elif s.startswith(">>", i) or c in "}])":
            depth -= 1
            if s.startswith(">>", i):
                cur += ">>"
                i += 2
                continue
        if c == "," and depth == 0:
            out.append(cur)
            cur = ""
        else:
            cur += c
        i += 1
    if cur.strip():
        out.append(cur)
    return out


def edge_cover(init, edges, rng=None, max_scripts=None, max_len=10 ** 9, skip=lambda lbl: False):
    """Greedy edge cover: returns list of (init_id, [labels]) whose union of traversed edges is every
    edge of the graph (or, with max_scripts, a seeded random sample of such walks)."""
    rng = rng or random.Random(1)
    # BFS tree from the initial states
    parent = {}
    order = []
    dq = collections.deque()
    for i in init:
        parent[i] = None
        dq.append(i)
    while dq:
        u = dq.popleft()
        order.append(u)
        for (v, lbl) in edges.get(u, ()):
            if v not in parent and not skip(lbl):
                parent[v] = (u, lbl)
                dq.append(v)

    def path_to(u):
        p = []
        while parent[u] is not None:
            pu, lbl = parent[u]
            p.append(lbl)
            u = pu
        return u, list(reversed(p))

    uncovered = {}
    total = 0
    for u in order:
        es = [(v, lbl) for (v, lbl) in edges.get(u, ()) if not skip(lbl)]
        if es:
            uncovered[u] = list(es)
            total += len(es)
    starts = list(uncovered.keys())
    if max_scripts is not None:
        rng.shuffle(starts)
    scripts = []
    covered = 0
    for s in starts:
        while uncovered.get(s):
            root, labels = path_to(s)
            cur = s
            while uncovered.get(cur) and len(labels) < max_len:
                lst = uncovered[cur]
                idx = rng.randrange(len(lst)) if max_scripts is not None else len(lst) - 1
                v, lbl = lst.pop(idx)
                covered += 1
                labels.append(lbl)
                cur = v
            scripts.append((root, labels))
            if max_scripts is not None and len(scripts) >= max_scripts:
                return scripts, covered, total
    return scripts, covered, total
