#!/usr/bin/env python3
"""/verif/bin/check <property> quick|thorough [--replay <dir>]

Every check: (M1) TLC model-checks the TLA+ module of the property's layer; (M2/M3) the Go harness,
rebuilt with -tags verif against /repo's current working tree, executes TLC-derived scripts and
seeded random workloads on the real code and records NDJSON traces; TLC validates the traces
against the trace specification.  Verdicts (exit 1) come only from real-code traces.
exit 0 = held, 1 = VIOLATION, 2 = infrastructure problem."""
import importlib, os, sys, time, traceback

sys.path.insert(0, os.path.dirname(os.path.abspath(__file__)))
import vlib
from vlib import Infra, log


def main():
    if len(sys.argv) < 3:
        print(__doc__)
        return 2
    pid, tier = sys.argv[1], sys.argv[2]
    replay = None
    if "--replay" in sys.argv:
        replay = sys.argv[sys.argv.index("--replay") + 1]
    if tier not in ("quick", "thorough"):
        print("tier must be quick or thorough")
        return 2
    try:
        mod = importlib.import_module("checks." + pid.lower())
    except ImportError as e:
        print("no check for %s (%s)" % (pid, e))
        return 2
    os.makedirs(vlib.WORK, exist_ok=True)
    t0 = time.time()
    ctx = None
    try:
        ctx = vlib.Ctx(pid, tier, replay)
        rc = mod.run(ctx)
        if rc is None:
            rc = ctx.finish()
        log("[%s %s] rc=%d in %.1fs" % (pid, tier, rc, time.time() - t0))
        return rc
    except Infra as e:
        log("INFRA: %s" % e)
        return 2
    except Exception:
        traceback.print_exc()
        return 2
    finally:
        try:
            if ctx is not None:
                vlib.cleanup(ctx.wd)  # also after an infrastructure error (kept with VERIF_KEEP=1)
        except Exception:
            pass


if __name__ == "__main__":
    sys.exit(main())
