#!/usr/bin/env python3
"""Regression over the seeded changes: every /verif/seeded/<id>/patch.diff is applied to a scratch worktree of /repo
(the box of tools/selfmut.py), the quick check of its property is run there, and the tree is restored.
Results: /verif/seeded/regression.json.  Not a registered check -- a calibration tool."""
import json, os, subprocess, sys, time
sys.path.insert(0, os.path.dirname(os.path.abspath(__file__)))
import selfmut

V = os.path.dirname(os.path.dirname(os.path.abspath(__file__)))


def sh(cmd, cwd=None, timeout=3600):
    return subprocess.run(cmd, shell=True, cwd=cwd, stdout=subprocess.PIPE, stderr=subprocess.STDOUT, text=True, timeout=timeout)


def main():
    want = set(sys.argv[1:])
    selfmut.prepare()
    out_f = os.path.join(V, "seeded", "regression.json")
    out = json.load(open(out_f)) if os.path.exists(out_f) else {}
    ids = sorted(d for d in os.listdir(os.path.join(V, "seeded")) if os.path.exists(os.path.join(V, "seeded", d, "patch.diff")))
    for sid in ids:
        if want and sid not in want:
            continue
        meta = json.load(open(os.path.join(V, "seeded", sid, "meta.json")))
        prop = meta["property"]
        patch = os.path.join(V, "seeded", sid, "patch.diff")
        sh("git checkout -q -- .", cwd=selfmut.REPO)
        a = sh("git apply %s" % patch, cwd=selfmut.REPO)
        if a.returncode != 0:
            out[sid] = {"property": prop, "status": "patch does not apply to the current /repo HEAD: " + a.stdout.strip()[:200]}
            print(sid, out[sid]["status"])
            continue
        b = sh("go build ./...", cwd=selfmut.REPO)
        t0 = time.time()
        try:
            r = sh("bin/check %s quick" % prop, cwd=selfmut.V, timeout=3000)
            viol = [l for l in r.stdout.splitlines() if l.startswith("VIOLATION")]
            out[sid] = {"property": prop, "rc": r.returncode, "wall_s": round(time.time() - t0, 1), "detected": r.returncode == 1,
                        "violation": (viol[0][:300] if viol else r.stdout.strip().splitlines()[-1][:200] if r.stdout.strip() else "")}
        except subprocess.TimeoutExpired:
            out[sid] = {"property": prop, "rc": None, "status": "timeout"}
        finally:
            sh("git checkout -q -- .", cwd=selfmut.REPO)
        print(sid, prop, out[sid].get("rc"), out[sid].get("violation", out[sid].get("status", ""))[:150], flush=True)
        json.dump(out, open(out_f, "w"), indent=1)
    json.dump(out, open(out_f, "w"), indent=1)


if __name__ == "__main__":
    main()
