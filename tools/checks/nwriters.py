"""M1 for the nitro-level concurrency properties: exhaustive TLC runs of NitroWriters.tla."""
import os
import vlib
from vlib import Infra, log

INVS = ("C03_DeleteOnce", "C03_AtMostOneLive", "C04_NoUAF", "C04_NoDoubleFree", "C04_FreedImpliesUnlinked",
        "C06_GcListsIntact", "C07_AllFreedOnceAtClose")


def cfg_text(writers, maxops, maxnodes, oldlive, fix=True):
    return ("SPECIFICATION Spec\nCONSTANTS\n  Writers = {%s}\n  MaxOps = %d\n  MaxNodes = %d\n  OldLive = %s\n  FIXD3 = %s\n" %
            (", ".join(writers), maxops, maxnodes, "TRUE" if oldlive else "FALSE", "TRUE" if fix else "FALSE") +
            "".join("INVARIANT %s\n" % i for i in INVS) + "CHECK_DEADLOCK FALSE\n")


def model_check(ctx, thorough):
    vlib.stage_specs(ctx.wd, [])
    insts = [("MC_NW_2w.cfg", cfg_text(["w1", "w2"], 3, 4, True)), ("MC_NW_3w.cfg", cfg_text(["w1", "w2", "w3"], 2, 4, True))]
    if thorough:
        insts += [("MC_NW_3w3.cfg", cfg_text(["w1", "w2", "w3"], 3, 5, True)), ("MC_NW_2w_fresh.cfg", cfg_text(["w1", "w2"], 4, 5, False))]
    for name, text in insts:
        open(os.path.join(ctx.wd, name), "w").write(text)
        r = vlib.run_tlc("NitroWriters.tla", name, ctx.wd, timeout=2400)
        ctx.states += r.distinct
        ctx.transitions += r.generated
        ctx.mc_runs.append({"spec": "NitroWriters.tla", "cfg": name, "constants": text.split("CONSTANTS")[1].split("INVARIANT")[0].split(),
                            "distinct_states": r.distinct, "states_generated": r.generated, "depth": r.depth,
                            "wall_s": round(r.wall, 1), "result": r.violated or "no error"})
        log("[M1] NitroWriters/%s: %d distinct states, depth %d, %.0fs: %s" % (name, r.distinct, r.depth, r.wall, r.violated or "all invariants hold"))
        if not r.ok:
            raise Infra("NitroWriters.tla violates %s in %s: model of the repaired code is wrong (the real code is judged by traces)" % (r.violated, name))
