"""M1 for the nitro-level concurrency properties: exhaustive TLC runs of NitroWriters.tla."""
import json, os, random, re
import vlib
from vlib import Infra, log

INVS = ("C03_DeleteOnce", "C03_AtMostOneLive", "C04_NoUAF", "C04_NoDoubleFree", "C04_FreedImpliesUnlinked",
        "C06_GcListsIntact", "C07_AllFreedOnceAtClose")


def cfg_text(writers, maxops, maxnodes, oldlive, fix=True):
    return ("SPECIFICATION Spec\nCONSTANTS\n  Writers = {%s}\n  MaxOps = %d\n  MaxNodes = %d\n  OldLive = %s\n  FIXD3 = %s\n" %
            (", ".join(writers), maxops, maxnodes, "TRUE" if oldlive else "FALSE", "TRUE" if fix else "FALSE") +
            "".join("INVARIANT %s\n" % i for i in INVS) + "CHECK_DEADLOCK FALSE\n")


def model_check(ctx, thorough):
    vlib.stage_specs(ctx.wd, [])
    insts = [("MC_NW_2w.cfg", cfg_text(["1", "2"], 3, 4, True)), ("MC_NW_3w.cfg", cfg_text(["1", "2", "3"], 2, 4, True))]
    if thorough:
        insts += [("MC_NW_3w3.cfg", cfg_text(["1", "2", "3"], 3, 5, True)), ("MC_NW_2w_fresh.cfg", cfg_text(["1", "2"], 4, 5, False))]
    for name, text in insts:
        open(os.path.join(ctx.wd, name), "w").write(text)
        r = vlib.run_tlc("NitroWriters.tla", name, ctx.wd, timeout=2400)
        ctx.states += r.distinct
        ctx.transitions += r.generated
        ctx.mc_runs.append({"spec": "NitroWriters.tla", "cfg": name, "constants": text.split("CONSTANTS")[1].split("INVARIANT")[0].split(),
                            "distinct_states": r.distinct, "states_generated": r.generated, "depth": r.depth,
                            "wall_s": round(r.wall, 1), "result": r.violated or "no error"})
        log("[M1] NitroWriters/%s: %d distinct states, depth %d, %.0fs: %s" % (name, r.distinct, r.depth, r.wall, r.violated or "all invariants hold"))
        if not r.ok:
            raise Infra("NitroWriters.tla violates %s in %s: model of the repaired code is wrong (the real code is judged by traces)" % (r.violated, name))


# ---------------------------------------------------------------- binding: gate-scheduled writers (M3 / M4)

def reset(e):
    return e.get("e") == "NwInit"


def beh_to_script(labels, nw, old, seed):
    """A TLC behaviour of NitroWriters.tla -> operations per writer + a gate schedule.  One gate step runs from one
    nitro yield point to the next, so several model actions (DelStart+G1, N1+N2, ...) share a step."""
    procs = {str(w): [] for w in range(1, nw + 1)}
    sched = [str(w) for w in range(1, nw + 1)] + ["fw"]      # everybody reaches its first idle point
    for lb in labels:
        m = re.match(r"^(\w+)(?:\((\d+)\))?$", lb)
        if not m:
            continue
        act, w = m.group(1), m.group(2)
        if act == "Put":
            procs[w].append(["put"])
            sched += [w, w]
        elif act == "DelStart":
            procs[w].append(["del"])
            sched.append(w)
        elif act in ("N1", "N3", "N4", "N5"):
            sched.append(w)
        elif act == "FwTake":
            sched.append("fw")
    return {"nw": nw, "old": old, "procs": procs, "sched": sched, "seed": seed}


def run_nw(ctx, what, args):
    tr = os.path.join(ctx.wd, "nw_%s.ndjson" % what)
    p = vlib.run_harness(["nw", "-out", tr] + args, timeout=1800)
    info = json.loads(p.stdout.strip().splitlines()[-1])
    if info.get("failed"):
        raise Infra("vh nw (%s): gate reported %s" % (what, str(info["failed"][:2])[:1500]))
    return tr, info


def judge_nw(ctx, tr, what, ntraces, timeout=2400):
    """Step conformance (Trace_NitroWriters.tla).  If the real control flow leaves the model (no action matches a line),
    that scenario is judged from path-independent facts (NitroWritersAPI.tla); without such a fact the rejection stays
    what it is: model drift, exit 2."""
    bad = ctx.validate("Trace_NitroWriters.tla", "Trace_NitroWriters.cfg", tr, what, ntraces, timeout=timeout)
    if bad is None:
        return True
    tla, cfg = "Trace_NitroWriters.tla", "Trace_NitroWriters.cfg"
    first, sc = vlib.cut_scenario(tr, bad["line"], reset)
    p = os.path.join(ctx.wd, "failing-trace.ndjson")
    with open(p, "w") as f:
        f.write("\n".join(sc) + "\n")
    if bad["kind"] == "reject":
        step_msg = bad["msg"]
        log("[M4] %s: %s; judging that scenario at the API level" % (what, step_msg))
        saved = (ctx.events, ctx.traces)
        bad = ctx.validate("NitroWritersAPI.tla", "NitroWritersAPI.cfg", p, what + " [API-level facts of the scenario the step model rejects]", 0)
        ctx.events, ctx.traces = saved
        if bad is None or bad["kind"] == "reject":
            raise Infra("%s: %s" % (what, step_msg))
        tla, cfg = "NitroWritersAPI.tla", "NitroWritersAPI.cfg"
        bad["line"] += first - 1
        bad["msg"] += " (and the call took a path the step model does not have: event %d)" % (int(re.findall(r"line (\d+)", step_msg)[0]) - first + 1)
    ctx.violation("%s [%s, event %d of the failing scenario]" % (bad["msg"], what, bad["line"] - first + 1),
                  files=[p], meta={"trace_spec": tla, "cfg": cfg, "driver": what,
                                   "how_to_replay": "bin/check %s %s --replay <this dir> re-validates failing-trace.ndjson" % (ctx.pid, ctx.tier)})
    return False


def conformance(ctx, thorough, seed_off=0):
    """NitroWriters.tla bound to the real writers: TLC-simulated behaviours as gate schedules (M3), seeded random
    schedules (M2); every model action is one event, TLC (Trace_NitroWriters.tla) replays them and compares every
    node's real fields, the writers' garbage lists and the allocator's verdicts after every gate step (M4)."""
    rng = random.Random(vlib.seed() + seed_off)
    nsim = 1500 if thorough else 150
    scripts = []
    for old in (True, False):
        name = "Sim_NW_%s.cfg" % ("old" if old else "fresh")
        open(os.path.join(ctx.wd, name), "w").write(
            "SPECIFICATION Spec\nCONSTANTS\n  Writers = {1, 2, 3}\n  MaxOps = 3\n  MaxNodes = 6\n  OldLive = %s\n  FIXD3 = TRUE\nCHECK_DEADLOCK FALSE\n"
            % ("TRUE" if old else "FALSE"))
        vlib.stage_specs(ctx.wd, [])
        behs, r = vlib.simulate_behaviours("NitroWriters.tla", name, ctx.wd, nsim, 70, vlib.seed() + seed_off + (1 if old else 2))
        scripts += [beh_to_script(b, 3, old, rng.randrange(1 << 30)) for b in behs]
    vlib.require_ops(ctx, scripts, "NitroWriters.tla simulated behaviours")
    sp = os.path.join(ctx.wd, "nw_scripts.ndjson")
    with open(sp, "w") as f:
        for s in scripts:
            f.write(json.dumps(s) + "\n")
    ctx.add_sample({"kind": "NitroWriters.tla behaviour as operations + gate schedule (M3)", "procs": scripts[0]["procs"], "sched": scripts[0]["sched"][:30]})
    tr, info = run_nw(ctx, "m3", ["-scripts", sp])
    ends = [json.loads(l) for l in open(tr) if '"NwEnd"' in l]
    ctx.extra["nw_schedule_steps_followed_on_impl"] = "%d of %d gate steps followed the TLC behaviour" % (
        sum(e["followed"] for e in ends), sum(len(e["sched"]) for e in ends))
    ok = judge_nw(ctx, tr, "TLC-simulated NitroWriters behaviours on the real writers (gate)", info["scenarios"])
    first = tr
    if ok or thorough:
        tr2, info2 = run_nw(ctx, "m2", ["-seed", vlib.seed() * 10 + seed_off, "-n", 3000 if thorough else 300])
        judge_nw(ctx, tr2, "random gate schedules of 2-3 writers on one key", info2["scenarios"])
        ctx.extra["nw_step_conformance_events"] = info["events"] + info2["events"]
        os.remove(tr2)
    # binding demonstration: flip the logged result of one cross-epoch delete
    if not ctx.violations:
        lines = open(first).read().splitlines()
        for i, ln_ in enumerate(lines):
            if '"a":"N4"' in ln_.replace(" ", ""):
                e = json.loads(ln_)
                e["res"] = not e["res"]
                start = max(k for k in range(0, i + 1) if '"NwInit"' in lines[k])
                end = next((k for k in range(i + 1, len(lines)) if '"NwInit"' in lines[k]), len(lines))
                sc = lines[start:i] + [json.dumps(e)] + lines[i + 1:end]
                cp = os.path.join(ctx.wd, "corrupt.ndjson")
                open(cp, "w").write("\n".join(sc) + "\n")
                saved = (ctx.events, ctx.traces, ctx.states, ctx.transitions)
                bad = ctx.validate("Trace_NitroWriters.tla", "Trace_NitroWriters.cfg", cp, "binding self-test (result of one deadSn CAS flipped)", 0)
                ctx.events, ctx.traces, ctx.states, ctx.transitions = saved
                if bad is None:
                    raise Infra("binding self-test failed: a trace with a flipped delete result was accepted")
                ctx.extra["nw_binding_selftest"] = "flipped N4 result -> rejected: " + bad["msg"]
                break
        # the API-level judge (used when the step model rejects): a successful DelRet reported twice must be refused
        for i, ln_ in enumerate(lines):
            if '"DelRet"' in ln_ and '"res":true' in ln_.replace(" ", ""):
                start = max(k for k in range(0, i + 1) if '"NwInit"' in lines[k])
                end = next((k for k in range(i + 1, len(lines)) if '"NwInit"' in lines[k]), len(lines))
                cp = os.path.join(ctx.wd, "corrupt2.ndjson")
                open(cp, "w").write("\n".join(lines[start:i + 1] + [ln_] + lines[i + 1:end]) + "\n")
                saved = (ctx.events, ctx.traces, ctx.states, ctx.transitions)
                ok_ = ctx.validate("NitroWritersAPI.tla", "NitroWritersAPI.cfg", os.path.join(ctx.wd, "corrupt2.ndjson"), "API judge self-test (one successful DelRet duplicated)", 0)
                acc = ctx.validate("NitroWritersAPI.tla", "NitroWritersAPI.cfg", first, "API judge on the unmodified trace", 0)
                ctx.events, ctx.traces, ctx.states, ctx.transitions = saved
                if ok_ is None or not ok_["msg"].startswith("C03"):
                    raise Infra("API judge self-test failed: a duplicated successful delete was accepted")
                if acc is not None:
                    raise Infra("NitroWritersAPI.tla refuses a trace that the step model accepts: " + acc["msg"])
                ctx.extra["nw_api_judge_selftest"] = "duplicated successful DelRet -> " + ok_["msg"]
                break
        else:
            raise Infra("no successful Delete2 in the conformance trace (vacuous)")
    os.remove(first)
