"""C10 -- Visitor delivers every visible item exactly once, partitioned in order."""
from checks import mvcc


def run(ctx):
    T = ctx.thorough
    ctx.rule = ("M1: TLC exhausts NitroMVCC with invariant C10_VisitPartition: for EVERY choice of up to 2-3 pivots among the physical versions "
                "(a superset of what GetRangeSplitItems can return) the shards' walks concatenate to the snapshot's view; "
                "M2: random histories with visits of latest and older snapshots (other versions physically present), shards in "
                "{1,2,3,4,8,16,64,> item count}, concurrency {1,2,8}, callback errors at random items, databases up to 300 items so that "
                "several skiplist levels supply pivots; the per-shard sequences and the returned error are recorded and judged by TLC; "
                "each Visitor call runs under a 30 s watchdog (hang = violation)")
    m1 = [("c10_p2", mvcc.mc_cfg([1, 2], [1], ["w1"], 3, 1, [], [], 2, mvcc.MC_INVS["gc"]))]
    if T:
        m1.append(("c10_p3_3k", mvcc.mc_cfg([1, 2, 3], [1], ["w1"], 2, 1, [], [], 3, mvcc.MC_INVS["gc"])))
    randoms = [("C10 visitor histories (small)", 1500 if T else 150, 120, "visit", 8),
               ("C10 visitor histories (up to 300 items)", 200 if T else 20, 250, "visitbig", 300)]
    return mvcc.run_family(ctx, m1, None, 0, randoms)
