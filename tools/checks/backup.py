"""Shared machinery for the backup/restore properties (C11, C12, C05 file-system part).
Model: Backup.tla (M1).  Real code: child processes build a database and run StoreToDisk (optionally under
strace or a file-size limit); LoadFromDisk runs on damaged / partial / crash-prefix directories; every
outcome is an event judged by TLC against Trace_Backup.tla."""
import json, os, re, shutil, subprocess, concurrent.futures as cf
import vlib
from vlib import Infra, log


def reset(e):
    return e.get("e") == "Gen"


def model_check(ctx, nshards, items, conc, fix6=True, fix7=True, fix11=True):
    vlib.stage_specs(ctx.wd, [])
    name = "MC_Backup_%d_%s_c%d" % (nshards, "".join(map(str, items)), conc)
    with open(os.path.join(ctx.wd, name + ".tla"), "w") as f:
        f.write("---- MODULE %s ----\nEXTENDS Backup\nMCItems == <<%s>>\n====\n" % (name, ", ".join(map(str, items))))
    with open(os.path.join(ctx.wd, name + ".cfg"), "w") as f:
        f.write("SPECIFICATION BSpec\nCONSTANTS\n  Shards = {%s}\n  ItemsIn <- MCItems\n  LoadConc = %d\n  FIXD6 = %s\n  FIXD7 = %s\n  FIXD11 = %s\n" %
                (", ".join(str(i + 1) for i in range(nshards)), conc, str(fix6).upper(), str(fix7).upper(), str(fix11).upper()) +
                "".join("INVARIANT %s\n" % i for i in ("C12_NoSilentPartial", "C12_CrashSafe", "C05_StoreLoads", "C11_DamageDetected", "C11_MultiShard")) +
                "CHECK_DEADLOCK FALSE\n")
    r = vlib.run_tlc(name + ".tla", name + ".cfg", ctx.wd, timeout=1500)
    ctx.states += r.distinct
    ctx.transitions += r.generated
    ctx.mc_runs.append({"spec": "Backup.tla", "instance": name, "distinct_states": r.distinct, "states_generated": r.generated,
                        "depth": r.depth, "wall_s": round(r.wall, 1), "result": r.violated or "no error"})
    log("[M1] Backup/%s: %d distinct states, depth %d: %s" % (name, r.distinct, r.depth, r.violated or "all invariants hold"))
    if not r.ok:
        raise Infra("Backup.tla instance %s violates %s: the model of the (repaired) code is wrong" % (name, r.violated))
    return r


def gen(ctx, d, seed, items, opts, extra=(), timeout=120, strace=None):
    """Run the bk-gen child.  Returns its JSON result."""
    exe = vlib.build_harness()
    shutil.rmtree(d, ignore_errors=True)
    os.makedirs(d)
    cmd = [exe, "bk-gen", "-dir", d, "-seed", str(seed), "-items", str(items)] + list(opts) + list(extra)
    if strace:
        cmd = ["strace", "-f", "-y", "-xx", "-s", "1000000", "-e", "trace=openat,open,creat,write,pwrite64,close,mkdir,mkdirat,rename,renameat,unlink,unlinkat,ftruncate",
               "-o", strace] + cmd
    try:
        p = subprocess.run(cmd, stdout=subprocess.PIPE, stderr=subprocess.PIPE, text=True, timeout=timeout)
    except subprocess.TimeoutExpired:
        raise Infra("bk-gen timed out")
    lines = [x for x in p.stdout.strip().splitlines() if x.startswith("{")]
    if p.returncode != 0 or not lines:
        raise Infra("bk-gen failed rc=%d: %s %s" % (p.returncode, p.stdout[-500:], p.stderr[-1500:]))
    return json.loads(lines[-1])


def opt_list(o):
    out = []
    for k in ("kv", "mm", "delta", "fixkey"):
        if o.get(k):
            out.append("-" + k)
    out += ["-conc", str(o.get("conc", 2))]
    if o.get("lblk"):
        out += ["-lblk", str(o["lblk"])]
    return out


def load_batch(ctx, entries, o, what, watchdog=10):
    """entries: list of dicts with 'dir' and tag fields.  Returns list of result events (crashes attributed)."""
    exe = vlib.build_harness()
    lst = os.path.join(ctx.wd, "dirs_%s.ndjson" % what)
    out = os.path.join(ctx.wd, "loads_%s.ndjson" % what)
    results = []
    todo = list(entries)
    while todo:
        with open(lst, "w") as f:
            for e in todo:
                f.write(json.dumps(e) + "\n")
        if os.path.exists(out):
            os.remove(out)
        p = subprocess.run([exe, "bk-load", "-dirs", lst, "-out", out, "-watchdog", str(watchdog)] + opt_list(o),
                           stdout=subprocess.PIPE, stderr=subprocess.PIPE, text=True, timeout=600 + 15 * len(todo))
        got = [json.loads(l) for l in open(out)] if os.path.exists(out) else []
        results += got
        if p.returncode == 0:
            break
        # the process died inside a load: attribute it to the announced directory
        idx = len(got)
        if idx >= len(todo):
            break
        oom = "out of memory" in p.stderr or "cannot allocate" in p.stderr
        if not oom and not re.search(r"^(panic:|fatal error:)", p.stderr, re.M):
            # killed from outside (OOM killer, SIGTERM, ...): no Go panic/fatal message -> not a verdict
            raise Infra("bk-load died without a Go panic message (rc=%s): %s" % (p.returncode, p.stderr[-300:]))
        ev = dict(todo[idx])
        ev.update({"e": "Load", "outcome": "slow" if oom else "panic", "msg": p.stderr.strip().splitlines()[0][:200] if p.stderr.strip() else "process died",
                   "items": [], "count": 0})
        results.append(ev)
        todo = todo[idx + 1:]
    return results


def damage_run(ctx, base, genres, o, nproc, extra=(), what="dmg"):
    """Run bk-damage in nproc parallel workers on private copies of base.  Returns the list of Damage events."""
    exe = vlib.build_harness()

    def worker(i):
        cp = os.path.join(ctx.wd, "%s_copy%d" % (what, i))
        evs = []
        skip = 0
        for attempt in range(50):
            shutil.rmtree(cp, ignore_errors=True)
            shutil.copytree(base, cp)
            out = os.path.join(ctx.wd, "%s_%d_%d.ndjson" % (what, i, attempt))
            p = subprocess.run([exe, "bk-damage", "-dir", cp, "-out", out, "-part", str(i), "-of", str(nproc), "-skip", str(skip)]
                               + opt_list(o) + list(extra), stdout=subprocess.PIPE, stderr=subprocess.PIPE, text=True, timeout=3000)
            got = [json.loads(l) for l in open(out)] if os.path.exists(out) else []
            evs += got
            if os.path.exists(out):
                os.remove(out)
            if p.returncode == 0:
                break
            begins = re.findall(r"^BEGIN (\d+) (\S+) (\S+) (\d+) (\d+)$", p.stderr, re.M)
            if not begins:
                raise Infra("bk-damage died without announcing a case: " + p.stderr[-800:])
            n, kind, f, off, pat = begins[-1]
            oom = "out of memory" in p.stderr or "cannot allocate" in p.stderr
            first = [x for x in p.stderr.splitlines() if x.startswith(("panic:", "fatal error:"))]
            if not first and not oom:
                # killed from outside (OOM killer, SIGTERM, ...): no Go panic/fatal message -> not a verdict
                raise Infra("bk-damage died without a Go panic message (rc=%s) at case %s: %s" % (p.returncode, n, p.stderr[-300:]))
            evs.append({"e": "Damage", "case": int(n), "file": f, "kind": kind, "off": int(off), "pat": int(pat), "class": "?",
                        "descr": [], "conc": o.get("conc", 2), "delta": bool(o.get("delta")),
                        "outcome": "slow" if oom else "panic", "msg": (first[0] if first else "process died")[:200], "items": [], "count": 0})
            skip = int(n)
        shutil.rmtree(cp, ignore_errors=True)
        return evs

    with cf.ThreadPoolExecutor(max_workers=nproc) as ex:
        parts = list(ex.map(worker, range(nproc)))
    return [e for p in parts for e in p]


def gen_event(g, extra=None):
    e = {"e": "Gen", "ret": g["ret"], "view": g["view"], "count": g["count"], "nshards": g["nshards"], "sn": g["sn"]}
    e.update(extra or {})
    return e


def judge(ctx, events, what, ntraces):
    tr = os.path.join(ctx.wd, "trace_%s.ndjson" % what)
    with open(tr, "w") as f:
        for e in events:
            f.write(json.dumps(e) + "\n")
    ok = vlib.judge_trace(ctx, "Trace_Backup.tla", "Trace_Backup.cfg", tr, what, ntraces, reset)
    os.remove(tr)
    return ok


# ---------------------------------------------------------------- strace

def _unhex(s):
    return bytes(int(x, 16) for x in re.findall(r"\\x([0-9a-f]{2})", s))


def parse_strace(path, root):
    """Return the ordered list of file-system mutations under `root`: dicts {op, file, data}.
    strace -y -xx prints every string and every fd annotation as \\xNN escapes."""
    muts = []
    pend = {}
    root = os.path.realpath(root)
    HEX = r"((?:\\x[0-9a-f]{2})*)"

    def under(p):
        p = os.path.normpath(p)
        return p == root or p.startswith(root + os.sep)

    for line in open(path, errors="replace"):
        m = re.match(r"^(\d+)\s+(.*)$", line.rstrip("\n"))
        if not m:
            continue
        pid, rest = m.group(1), m.group(2)
        if rest.endswith("<unfinished ...>"):
            pend[pid] = rest[:-len("<unfinished ...>")].rstrip()
            continue
        mm = re.match(r"^<\.\.\. (\w+) resumed>(.*)$", rest)
        if mm:
            rest = pend.pop(pid, "") + mm.group(2)
        mm = re.match(r"^(\w+)\((.*)\)\s+=\s+(-?\d+)(?:<" + HEX + r">)?", rest)
        if not mm:
            continue
        call, args, ret, retpath = mm.groups()
        ret = int(ret)
        if ret < 0:
            continue
        retpath = _unhex(retpath).decode("utf-8", "replace") if retpath else ""
        if call in ("mkdir", "mkdirat"):
            q = re.search(r'"' + HEX + r'"', args)
            p = os.path.normpath(_unhex(q.group(1)).decode("utf-8", "replace")) if q else ""
            if under(p):
                muts.append({"op": "mkdir", "file": os.path.relpath(p, root), "data": b""})
        elif call in ("openat", "open", "creat"):
            if ("O_CREAT" in args or call == "creat") and retpath and under(retpath):
                muts.append({"op": "creat", "file": os.path.relpath(os.path.normpath(retpath), root), "data": b"",
                             "trunc": "O_TRUNC" in args})
        elif call in ("write", "pwrite64"):
            mfd = re.match(r"^\d+<" + HEX + r">,\s*\"" + HEX + r"\"", args)
            if mfd:
                fp = _unhex(mfd.group(1)).decode("utf-8", "replace")
                if under(fp):
                    data = _unhex(mfd.group(2))[:ret]
                    muts.append({"op": "write", "file": os.path.relpath(os.path.normpath(fp), root), "data": data})
        elif call == "close":
            mfd = re.match(r"^\d+<" + HEX + r">", args)
            if mfd:
                fp = _unhex(mfd.group(1)).decode("utf-8", "replace")
                if under(fp) and os.path.normpath(fp) != root and not fp.rstrip("/").endswith(("/data", "/delta")):
                    muts.append({"op": "close", "file": os.path.relpath(os.path.normpath(fp), root), "data": b""})
        elif call in ("rename", "renameat", "unlink", "unlinkat", "ftruncate"):
            q = re.search(r'"' + HEX + r'"', args)
            p = os.path.normpath(_unhex(q.group(1)).decode("utf-8", "replace")) if q else ""
            if under(p):
                muts.append({"op": call, "file": os.path.relpath(p, root), "data": b""})
    return muts


def materialise(muts, k, dst):
    """Build the directory produced by the first k mutations (process death after mutation k)."""
    shutil.rmtree(dst, ignore_errors=True)
    os.makedirs(dst)
    for m in muts[:k]:
        p = os.path.join(dst, m["file"])
        if m["op"] == "mkdir":
            os.makedirs(p, exist_ok=True)
        elif m["op"] == "creat":
            os.makedirs(os.path.dirname(p), exist_ok=True)
            if m.get("trunc") or not os.path.exists(p):
                open(p, "wb").close()
        elif m["op"] == "write":
            with open(p, "ab") as f:
                f.write(m["data"])


def sys_events(muts, nshards):
    out = []
    for m in muts:
        base = os.path.basename(m["file"])
        sh = -1
        mm = re.match(r"^shard-(\d+)$", base)
        if mm and os.path.dirname(m["file"]) == "data":
            sh = int(mm.group(1))
        name = m["file"] if (sh >= 0 or os.path.dirname(m["file"]) not in ("", "data")) else base
        out.append({"e": "Sys", "op": m["op"], "file": name, "shard": sh, "n": len(m["data"]), "nshards": nshards})
    return out
