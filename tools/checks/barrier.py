"""Shared driver for the access-barrier properties C16 (safety) and C17 (liveness at quiescence).
M1: TLC exhausts AccessBarrier.tla (one action per atomic step).  M3: TLC-simulated behaviours and model
counterexamples become gate schedules executed on the real barrier.  M2: seeded random gate schedules and
free-running goroutines.  Every execution is recorded; Trace_BarrierAPI.tla gives the verdict,
Trace_AccessBarrier.tla checks step conformance (real counters = model after every step)."""
import json, os, random, re
import vlib, graph
from vlib import Infra, log


def reset(e):
    return e.get("e") == "AbInit"


def cfg_text(acc, fl, maxacq, maxfl, maxhold, fix=True, invs=("InOrderOnce", "NoHolderInDestructed", "WaitsForEarlier", "NothingPending")):
    return ("SPECIFICATION Spec\nCONSTANTS\n  Acc = {%s}\n  Fl = {%s}\n  MaxAcq = %d\n  MaxFl = %d\n  MaxHold = %d\n  FIXD5 = %s\n" %
            (", ".join(acc), ", ".join(fl), maxacq, maxfl, maxhold, "TRUE" if fix else "FALSE") +
            "".join("INVARIANT %s\n" % i for i in invs) + "CHECK_DEADLOCK FALSE\n")


def beh_to_script(labels, seed):
    procs = {}
    sched = []
    for lb in labels:
        m = re.match(r"^(\w+)\((\w+)\)$", lb)
        if not m:
            continue
        act, p = m.groups()
        sched.append(p)
        if act == "AcqStart":
            procs.setdefault(p, []).append("acq")
        elif act == "RelStart":
            procs.setdefault(p, []).append("rel")
        elif act == "FStart":
            procs.setdefault(p, []).append("flush")
        else:
            procs.setdefault(p, [])
    procs = {p: ops for p, ops in procs.items() if ops}
    return {"procs": procs, "sched": [p for p in sched if p in procs], "seed": seed}


def mc(ctx, name, text, timeout=1500):
    vlib.stage_specs(ctx.wd, [])
    open(os.path.join(ctx.wd, name), "w").write(text)
    r = vlib.run_tlc("AccessBarrier.tla", name, ctx.wd, timeout=timeout)
    ctx.states += r.distinct
    ctx.transitions += r.generated
    ctx.mc_runs.append({"spec": "AccessBarrier.tla", "cfg": name, "constants": text.split("CONSTANTS")[1].split("INVARIANT")[0].split(),
                        "distinct_states": r.distinct, "states_generated": r.generated, "depth": r.depth,
                        "wall_s": round(r.wall, 1), "result": r.violated or "no error"})
    log("[M1] AccessBarrier/%s: %d distinct states, depth %d, %.0fs: %s" % (name, r.distinct, r.depth, r.wall, r.violated or "all invariants hold"))
    return r


def run_scripts(ctx, scripts, what, free=False):
    sp = os.path.join(ctx.wd, "ab_scripts_%s.ndjson" % what)
    with open(sp, "w") as f:
        for s in scripts:
            f.write(json.dumps(s) + "\n")
    tr = os.path.join(ctx.wd, "ab_%s.ndjson" % what)
    p = vlib.run_harness(["ab", "-out", tr, "-scripts", sp] + (["-free"] if free else []), timeout=1800)
    return tr, json.loads(p.stdout.strip().splitlines()[-1])


def validate(ctx, tr, info, what, fine=True):
    if info.get("failed"):
        raise Infra("%s: gate reported %s" % (what, info["failed"][:2]))
    ok = vlib.judge_trace(ctx, "BarrierAPI.tla", "Trace_BarrierAPI.cfg", tr, what + " [API verdict]", info["scenarios"], reset)
    if fine:
        # step conformance: binding evidence only
        saved = (ctx.traces,)
        bad = ctx.validate("Trace_AccessBarrier.tla", "Trace_AccessBarrier.cfg", tr, what + " [step conformance]", 0)
        ctx.traces = saved[0]
        if bad is not None:
            log("MODEL-DRIFT (%s): the fine-grain log is not a behaviour of AccessBarrier.tla at line %s: %s" % (what, bad.get("line"), bad.get("msg")))
            ctx.extra.setdefault("model_drift", []).append({"what": what, "line": bad.get("line"), "msg": bad.get("msg")})
        else:
            ctx.extra["step_conformance_events"] = ctx.extra.get("step_conformance_events", 0) + info["events"]
    return ok


def run(ctx):
    if ctx.replay:
        return vlib.replay_dir(ctx, "BarrierAPI.tla", "Trace_BarrierAPI.cfg", reset)
    T = ctx.thorough
    rng = random.Random(vlib.seed())
    ctx.rule = ("M1: TLC exhausts AccessBarrier.tla (one action per atomic operation of Acquire/Release/FlushSession/doCleanup) for 1-2 accessors x 2 "
                "calls and 2 flushers (thorough: nested holders, a flusher holding a token, 3 flushes): InOrderOnce, WaitsForEarlier, "
                "NoHolderInDestructed, the code's two panics as Asserts (C16) and NothingPending at quiescence (C17); "
                "M3: TLC-simulated behaviours of the model become schedules that the gate scheduler enforces on the real barrier (every goroutine "
                "parked at the verif yield points, one released at a time); M2: seeded random gate schedules and free-running goroutines; "
                "verdict: Trace_BarrierAPI.tla over Acquire/Release/FlushSession/destructor events; binding: Trace_AccessBarrier.tla compares the "
                "real liveCount/closed/seqno/session/activeSeqno/freeSeqno/try-lock/queue length with the model after every step")
    # ---- M1
    quick_cfg = cfg_text(["a1"], ["f1", "f2"], 2, 1, 1)
    r = mc(ctx, "MC_AB_quick.cfg", quick_cfg)
    mcs = [("MC_AB_quick.cfg", quick_cfg, r)]
    if T:
        for name, text in [("MC_AB_2a2f.cfg", cfg_text(["a1", "a2"], ["f1", "f2"], 2, 1, 1)),
                           ("MC_AB_nested.cfg", cfg_text(["a1", "f1"], ["f1", "f2"], 2, 1, 2)),
                           ("MC_AB_3flush.cfg", cfg_text(["a1"], ["f1", "f2"], 1, 2, 1))]:
            mcs.append((name, text, mc(ctx, name, text, timeout=2400)))
    # liveness (growth): under fairness of in-call steps and releases every call returns and every flushed session is
    # eventually destructed without any further flush
    live_insts = [("MC_AB_live.cfg", (["a1"], ["f1", "f2"], 2, 1, 1))] if ctx.pid == "C17" else []
    if T and live_insts:
        live_insts.append(("MC_AB_live2.cfg", (["a1", "a2"], ["f1", "f2"], 1, 1, 1)))
    for name, (acc, fl, ma, mf, mh) in live_insts:
        text = cfg_text(acc, fl, ma, mf, mh, invs=()).replace("SPECIFICATION Spec", "SPECIFICATION LiveSpec").replace(
            "CHECK_DEADLOCK FALSE", "PROPERTY EveryFlushDestructed\nPROPERTY EveryCallReturns\nCHECK_DEADLOCK FALSE")
        open(os.path.join(ctx.wd, name), "w").write(text)
        vlib.stage_specs(ctx.wd, [])
        r = vlib.run_tlc("AccessBarrier.tla", name, ctx.wd, timeout=2400)
        ctx.states += r.distinct
        ctx.transitions += r.generated
        ctx.mc_runs.append({"spec": "AccessBarrier.tla", "cfg": name, "kind": "liveness under fairness (LiveSpec): EveryFlushDestructed, EveryCallReturns",
                            "distinct_states": r.distinct, "states_generated": r.generated, "wall_s": round(r.wall, 1), "result": r.violated or "no error"})
        log("[M1] AccessBarrier/%s (liveness): %d distinct states, %.0fs: %s" % (name, r.distinct, r.wall, r.violated or "temporal properties hold"))
        if r.kind is not None:
            raise Infra("AccessBarrier.tla violates %s in %s: the model of the repaired barrier is wrong (the real barrier is judged by traces)" % (r.violated, name))
    scripts = []
    for name, text, r in mcs:
        if not r.ok:
            labels = [a.split(" line ")[0] for (a, _) in r.trace[1:]]
            scripts.append(beh_to_script(labels, 1))
            log("[M1] model counterexample for %s: replaying its schedule on the real barrier" % r.violated)
    if scripts:
        tr, info = run_scripts(ctx, scripts, "m1cex")
        if validate(ctx, tr, info, "model counterexample schedule on the real barrier"):
            raise Infra("AccessBarrier.tla violates an invariant but the real barrier does not reproduce it under the same schedule: model error")
        return None
    # ---- M3: simulated behaviours -> schedules
    sim_cfg = cfg_text(["a1", "a2", "f1"], ["f1", "f2"], 3, 2, 2, invs=())
    open(os.path.join(ctx.wd, "Sim_AB.cfg"), "w").write(sim_cfg)
    behs, r = vlib.simulate_behaviours("AccessBarrier.tla", "Sim_AB.cfg", ctx.wd, 3000 if T else 400, 90, vlib.seed())
    scripts = [beh_to_script(b, rng.randrange(1 << 30)) for b in behs]
    scripts = [s for s in scripts if s["procs"]]
    vlib.require_ops(ctx, scripts, "AccessBarrier.tla simulated behaviours")
    ctx.add_sample({"kind": "TLC-simulated behaviour as gate schedule (M3)", "procs": scripts[0]["procs"], "sched": scripts[0]["sched"][:40]})
    tr, info = run_scripts(ctx, scripts, "m3sim")
    validate(ctx, tr, info, "TLC-simulated schedules on the real barrier")
    lines = [json.loads(l) for l in open(tr) if '"AbEnd"' in l]
    tot = sum(len(e["sched"]) for e in lines)
    fol = sum(e["followed"] for e in lines)
    ctx.extra["schedule_steps_followed_on_impl"] = "%d of %d gate steps followed the TLC behaviour" % (fol, tot)
    first_tr = tr
    # ---- M2: random gate schedules, then free-running
    if not ctx.violations or T:
        tr = os.path.join(ctx.wd, "ab_m2.ndjson")
        p = vlib.run_harness(["ab", "-out", tr, "-seed", vlib.seed(), "-n", 4000 if T else 500, "-big"], timeout=1800)
        info = json.loads(p.stdout.strip().splitlines()[-1])
        validate(ctx, tr, info, "random gate schedules")
        os.remove(tr)
        tr = os.path.join(ctx.wd, "ab_free.ndjson")
        p = vlib.run_harness(["ab", "-out", tr, "-seed", vlib.seed() + 7, "-n", 20000 if T else 3000, "-big", "-free",
                              "-many", 200000 if T else 70000], timeout=1800)
        info = json.loads(p.stdout.strip().splitlines()[-1])
        validate(ctx, tr, info, "free-running goroutines", fine=False)
        os.remove(tr)
    # ---- binding demonstration
    if not ctx.violations:
        lines = open(first_tr).read().splitlines()
        cut = None
        for i, ln_ in enumerate(lines):
            if '"Destruct"' in ln_:
                cut = i
                break
        if cut is not None:
            # drop one destructor event: the API spec must notice (C17 at the next quiescence, or order)
            j = cut
            end = next((k for k in range(cut, len(lines)) if '"AbInit"' in lines[k]), len(lines))
            start = max(k for k in range(0, cut) if '"AbInit"' in lines[k])
            cp = os.path.join(ctx.wd, "corrupt.ndjson")
            open(cp, "w").write("\n".join(lines[start:cut] + lines[cut + 1:end]) + "\n")
            saved = (ctx.events, ctx.traces, ctx.states, ctx.transitions)
            bad = ctx.validate("BarrierAPI.tla", "Trace_BarrierAPI.cfg", cp, "binding self-test (one Destruct event removed)", 0)
            ctx.events, ctx.traces, ctx.states, ctx.transitions = saved
            if bad is None:
                raise Infra("binding self-test failed: trace without a destructor event was accepted")
            ctx.extra["binding_selftest"] = "removed Destruct event -> rejected: " + bad["msg"]
    ctx.assumptions += ["interleaving is controlled at the verif yield points (every atomic operation of the barrier); the queue (a skiplist) is treated as atomic per operation, as in the model",
                        "the real offset MaxInt32/2 is logged as the model's OFF = 100",
                        "free-running executions are judged from call/return events ordered by the logger's mutex (sound: logged-before implies happened-before)",
                        "step conformance (Trace_AccessBarrier) is binding evidence; a mismatch is reported as MODEL-DRIFT, not as a violation"]
    return None
