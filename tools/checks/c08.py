"""C08 -- snapshot handles: the reference count never leaves zero.
Model: SnapRef.tla (fine grain), SnapAPI.tla (verdict); sequential part also in NitroMVCC (C08_* invariants)."""
import json, os, random, re
import vlib
from vlib import Infra, log


def reset(e):
    return e.get("e") == "SrInit"


def cfg_text(procs, nsnap, maxopen, fix=True, invs=("NoOwnerOfRetired", "RetiredOnce", "SentInOrder", "CollectorNotStuck")):
    return ("SPECIFICATION Spec\nCONSTANTS\n  Procs = {%s}\n  NSnap = %d\n  MaxOpen = %d\n  FIXD4 = %s\n" %
            (", ".join(procs), nsnap, maxopen, "TRUE" if fix else "FALSE") + "".join("INVARIANT %s\n" % i for i in invs) + "CHECK_DEADLOCK FALSE\n")


def mc(ctx, name, text, timeout=1500):
    vlib.stage_specs(ctx.wd, [])
    open(os.path.join(ctx.wd, name), "w").write(text)
    r = vlib.run_tlc("SnapRef.tla", name, ctx.wd, timeout=timeout)
    ctx.states += r.distinct
    ctx.transitions += r.generated
    ctx.mc_runs.append({"spec": "SnapRef.tla", "cfg": name, "constants": text.split("CONSTANTS")[1].split("INVARIANT")[0].split(),
                        "distinct_states": r.distinct, "states_generated": r.generated, "depth": r.depth,
                        "wall_s": round(r.wall, 1), "result": r.violated or "no error"})
    log("[M1] SnapRef/%s: %d distinct states, depth %d, %.0fs: %s" % (name, r.distinct, r.depth, r.wall, r.violated or "all invariants hold"))
    return r


def to_script(labels, init, nsnap, seed):
    procs = {}
    sched = []
    for lb in labels:
        m = re.match(r"^(\w+)\(([^)]*)\)$", lb)
        if not m:
            continue
        act, args = m.group(1), [a.strip() for a in m.group(2).split(",")]
        p = args[0]
        sched.append(p)
        procs.setdefault(p, [])
        if act == "OpenCall":
            procs[p].append(["open", int(args[1])])
        elif act == "CloseCall":
            procs[p].append(["close", int(args[1])])
        elif act == "GCCall":
            procs[p].append(["gc"])
    owner = {}
    ow = init.get("owns", {})
    for p, row in (ow.items() if isinstance(ow, dict) else []):
        for i, v in enumerate(row):
            if v == 1:
                owner[str(i + 1)] = p
                procs.setdefault(p, [])
    return {"nsnap": nsnap, "owner": owner, "procs": procs, "sched": sched, "seed": seed}


def run_scripts(ctx, scripts, what):
    sp = os.path.join(ctx.wd, "sr_scripts_%s.ndjson" % what)
    with open(sp, "w") as f:
        for s in scripts:
            f.write(json.dumps(s) + "\n")
    tr = os.path.join(ctx.wd, "sr_%s.ndjson" % what)
    p = vlib.run_harness(["snapref", "-out", tr, "-scripts", sp], timeout=1800)
    return tr, json.loads(p.stdout.strip().splitlines()[-1])


def validate(ctx, tr, info, what, fine=True):
    if info.get("failed"):
        raise Infra("%s: gate reported %s" % (what, info["failed"][:2]))
    ok = vlib.judge_trace(ctx, "SnapAPI.tla", "Trace_SnapAPI.cfg", tr, what + " [API verdict]", info["scenarios"], reset)
    if fine:
        saved = ctx.traces
        bad = ctx.validate("Trace_SnapRef.tla", "Trace_SnapRef.cfg", tr, what + " [step conformance]", 0)
        ctx.traces = saved
        if bad is not None:
            log("MODEL-DRIFT (%s): the fine-grain log is not a behaviour of SnapRef.tla at line %s: %s" % (what, bad.get("line"), bad.get("msg")))
            ctx.extra.setdefault("model_drift", []).append({"what": what, "line": bad.get("line"), "msg": bad.get("msg")})
        else:
            ctx.extra["step_conformance_events"] = ctx.extra.get("step_conformance_events", 0) + info["events"]
    return ok


def run(ctx):
    if ctx.replay:
        return vlib.replay_dir(ctx, "SnapAPI.tla", "Trace_SnapAPI.cfg", reset)
    T = ctx.thorough
    rng = random.Random(vlib.seed())
    ctx.rule = ("M1: TLC exhausts SnapRef.tla -- Open (load, compare-and-swap), Close (decrement, move between lists, GC try-lock, collectDead "
                "per snapshot, unlock) as separate steps of 2-3 processes on 1-3 snapshots: NoOwnerOfRetired, RetiredOnce, SentInOrder, "
                "CollectorNotStuck; M3: TLC-simulated behaviours become gate schedules on the real Snapshot.Open/Close/NewIterator/GC (goroutines "
                "parked at the verif yield points between the zero test and the increment, after the decrement, after the list move, inside GC); "
                "M2: seeded random gate schedules and free-running goroutines; verdict by SnapAPI.tla (Open result vs. retirement, retired once, "
                "collector order, lastGCSn at quiescence after a forced GC), binding by Trace_SnapRef.tla (real refcounts, lists, lastGCSn = model)")
    mcs = [("MC_SR_2p2s.cfg", cfg_text(["p1", "p2"], 2, 2)), ("MC_SR_2p3s.cfg", cfg_text(["p1", "p2"], 3, 1))]
    if T:
        mcs += [("MC_SR_3p1s.cfg", cfg_text(["p1", "p2", "p3"], 1, 2)), ("MC_SR_3p2s.cfg", cfg_text(["p1", "p2", "p3"], 2, 1))]
    # unbounded counts / calls / behaviour length (3 processes): inductive invariant of the repaired Open/Close, by Apalache
    vlib.stage_specs(ctx.wd, [])
    obligations = [("Init", "IndInv", 0, "initiation"), ("IndInv", "IndInv", 1, "consecution"), ("IndInv", "Safety", 0, "IndInv => Safety")]
    import shutil
    if shutil.which("apalache-mc") is None:
        log("[M1] RefCountInd.tla: apalache-mc is not on PATH, inductive-invariant obligations skipped (the bounded TLC instances below still run)")
        ctx.mc_runs.append({"spec": "RefCountInd.tla", "tool": "Apalache", "result": "skipped: apalache-mc not on PATH"})
    else:
        walls = [vlib.run_apalache("RefCountInd.tla", ctx.wd, i, v, n) for (i, v, n, _) in obligations]
        ctx.mc_runs.append({"spec": "RefCountInd.tla", "tool": "Apalache 0.58 (symbolic, SMT)", "kind": "inductive invariant: " + ", ".join(o[3] for o in obligations),
                            "result": "all obligations discharged: the reference count equals the number of handles owned, never leaves zero, no Open succeeds on a retired snapshot "
                                      "-- for unbounded counts, calls and behaviour length", "wall_s": round(sum(walls), 1)})
        log("[M1] RefCountInd.tla: inductive invariant discharged by Apalache (initiation, consecution, implication) in %.0fs" % sum(walls))
    cex = []
    for name, text in mcs:
        r = mc(ctx, name, text, timeout=2400)
        if not r.ok:
            cex.append((name, r))
    if cex:
        raise Infra("SnapRef.tla violates %s in %s: model error (the real code is judged by traces)" % (cex[0][1].violated, cex[0][0]))
    sim_cfg = cfg_text(["p1", "p2", "p3"], 2, 3, invs=())
    open(os.path.join(ctx.wd, "Sim_SR.cfg"), "w").write(sim_cfg)
    behs, r = vlib.simulate_behaviours("SnapRef.tla", "Sim_SR.cfg", ctx.wd, 3000 if T else 500, 60, vlib.seed(), init_vars=("owns",))
    scripts = [to_script(lb, init, 2, rng.randrange(1 << 30)) for (lb, init) in behs]
    vlib.require_ops(ctx, scripts, "SnapRef.tla simulated behaviours")
    ctx.add_sample({"kind": "TLC-simulated behaviour as gate schedule (M3)", "script": {k: scripts[0][k] for k in ("owner", "procs")}, "sched": scripts[0]["sched"][:30]})
    tr, info = run_scripts(ctx, scripts, "m3sim")
    validate(ctx, tr, info, "TLC-simulated schedules on the real snapshot handles")
    ends = [json.loads(l) for l in open(tr) if '"SrEnd"' in l]
    ctx.extra["schedule_steps_followed_on_impl"] = "%d of %d gate steps followed the TLC behaviour" % (sum(e["followed"] for e in ends), sum(len(e["sched"]) for e in ends))
    first_tr = tr
    if not ctx.violations or T:
        tr = os.path.join(ctx.wd, "sr_m2.ndjson")
        p = vlib.run_harness(["snapref", "-out", tr, "-seed", vlib.seed(), "-n", 5000 if T else 600], timeout=1800)
        validate(ctx, tr, json.loads(p.stdout.strip().splitlines()[-1]), "random gate schedules")
        os.remove(tr)
        tr = os.path.join(ctx.wd, "sr_free.ndjson")
        p = vlib.run_harness(["snapref", "-out", tr, "-seed", vlib.seed() + 3, "-n", 10000 if T else 1500, "-free"], timeout=1800)
        validate(ctx, tr, json.loads(p.stdout.strip().splitlines()[-1]), "free-running goroutines", fine=False)
        os.remove(tr)
    if not ctx.violations:
        lines = open(first_tr).read().splitlines()
        end = next((k for k in range(1, len(lines)) if '"SrInit"' in lines[k]), len(lines))
        sc = lines[:end]
        for i, ln_ in enumerate(sc):
            if '"OpenRet"' in ln_ and '"ok":true' in ln_.replace(" ", ""):
                e = json.loads(ln_)
                # pretend the Open happened after the snapshot's retirement: move it to the end of the scenario
                sc = sc[:i] + sc[i + 1:-2] + [ln_] + sc[-2:]
                break
        cp = os.path.join(ctx.wd, "corrupt.ndjson")
        open(cp, "w").write("\n".join(sc) + "\n")
        saved = (ctx.events, ctx.traces, ctx.states, ctx.transitions)
        bad = ctx.validate("SnapAPI.tla", "Trace_SnapAPI.cfg", cp, "binding self-test (a successful Open moved after the retirement)", 0)
        ctx.events, ctx.traces, ctx.states, ctx.transitions = saved
        ctx.extra["binding_selftest"] = ("reordered OpenRet -> rejected: " + bad["msg"]) if bad else "no successful Open in the first scenario (self-test skipped)"
    ctx.assumptions += ["interleaving is controlled at the verif yield points of Snapshot.Open/Close and GC/collectDead; collection workers run free (they do not touch reference counts)",
                        "every scenario ends with all handles closed and one forced GC() (the property's 'collector able to make progress' is judged there)",
                        "free-running executions are judged from call/return events ordered by the logger's mutex"]
    return None
