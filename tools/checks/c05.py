"""C05 -- backup and restore reproduce the stored snapshot exactly."""
import json, os
import vlib
from checks import mvcc, backup, writers
from vlib import Infra, log


def run(ctx):
    if ctx.replay:
        return mvcc.replay(ctx)
    T = ctx.thorough
    ctx.rule = ("M1: Backup.tla (C05_StoreLoads: a store that returns success without faults loads exactly, for every interleaving of buffered writes, "
                "flushes and shard order) and NitroMVCC.tla (the backup's scan is the visitor: C10_VisitPartition over all pivot choices, C01) are "
                "exhausted by TLC, and NitroDelta.tla (delta interleaving: workers switched to delta writing, the snapshot's handle closed, the scan "
                "of the unprotected store interleaved with writers, snapshot churn and collection workers: ScanPlusDeltaIsView, RestoreExact); M2a: seeded sequential histories (multi-version, several open snapshots) in which StoreToDisk of the latest or an "
                "older snapshot runs with mutations, snapshot churn and garbage-list unlinking performed INSIDE its item callback (i.e. while the "
                "scan is in progress), delta interleaving on/off, store/load concurrency 1/2/8; LoadFromDisk into a fresh instance; TLC "
                "(Trace_NitroMVCC.tla) decodes the shard and delta files of every backup (strictly ascending items of the stored view, every missing one in "
                "the delta files, nothing foreign) and requires the restored items/Count to equal the stored snapshot's view, then continues validating the workload "
                "on the restored instance (C01/C02/C06/C09/C10 checks apply to it); M2b: free-running writers, readers and GC while a backup runs; "
                "the restored content is judged against the snapshot's content by SetLin.tla")
    backup.model_check(ctx, 2, [2, 1], 1)
    gcinv = mvcc.MC_INVS["gc"]
    r, _ = mvcc.model_check(ctx, "c05_visit", mvcc.mc_cfg([1, 2], [1], ["w1"], 3, 1, [], [], 2, gcinv), dump=False)
    if not r.ok:
        raise Infra("NitroMVCC instance violates " + str(r.violated))
    # delta interleaving: the scan of the closed snapshot plus the workers' delta writes is the view, for every interleaving
    nd = [("MC_ND_1w.cfg", '{w1}', 3, 1)] + ([("MC_ND_2w.cfg", '{w1, w2}', 3, 1), ("MC_ND_4sn.cfg", '{w1}', 4, 1)] if T else [])
    vlib.stage_specs(ctx.wd, [])
    for name, wr, maxsn, maxref in nd:
        open(os.path.join(ctx.wd, name), "w").write(
            "SPECIFICATION DSpec\nCONSTANTS\n  Keys = {1, 2}\n  Vals = {1}\n  Writers = %s\n  MaxSn = %d\n  MaxRef = %d\n  MaxCnt = 2\n  Rates = {0}\n  Iters = {}\n"
            "  MaxPivots = 0\n  FIXD1 = TRUE\n  FIXD2 = TRUE\n  DELTAFIRST = TRUE\n"
            "INVARIANT ScanPlusDeltaIsView\nINVARIANT ScanAscending\nINVARIANT ScanOnlyView\nINVARIANT RestoreExact\nCHECK_DEADLOCK FALSE\n" % (wr, maxsn, maxref))
        r = vlib.run_tlc("NitroDelta.tla", name, ctx.wd, timeout=3000)
        ctx.states += r.distinct
        ctx.transitions += r.generated
        ctx.mc_runs.append({"spec": "NitroDelta.tla", "cfg": name, "distinct_states": r.distinct, "states_generated": r.generated, "depth": r.depth,
                            "wall_s": round(r.wall, 1), "result": r.violated or "no error"})
        log("[M1] NitroDelta/%s: %d distinct states, depth %d, %.0fs: %s" % (name, r.distinct, r.depth, r.wall, r.violated or "all invariants hold"))
        if not r.ok:
            raise Infra("NitroDelta.tla violates %s in %s: model error (the real backup is judged by traces)" % (r.violated, name))
    tot = 2000 if T else 160
    per = 80
    first = None
    for part in range(0, tot, per):
        tr = os.path.join(ctx.wd, "c05_%d.ndjson" % part)
        p = vlib.run_harness(["mvcc", "-out", tr, "-seed", vlib.seed() * 1000 + part, "-n", per, "-len", 160, "-profile", "backup", "-keys", 10,
                              "-backupdir", os.path.join(ctx.wd, "mvbk"), "-hangdump", os.path.join(ctx.wd, "hang.txt")], timeout=1800)
        info = json.loads(p.stdout.strip().splitlines()[-1])
        nstore = sum(1 for l in open(tr) if '"e":"Store"' in l)
        nload = sum(1 for l in open(tr) if '"e":"Load"' in l)
        ctx.extra["backups_taken"] = ctx.extra.get("backups_taken", 0) + nstore
        ctx.extra["restores_validated"] = ctx.extra.get("restores_validated", 0) + nload
        mvcc.judge(ctx, tr, info, "backup/restore histories (part %d)" % (part // per))
        if first is None:
            first = tr
            for l in open(tr):
                if '"e":"Load"' in l:
                    e = json.loads(l)
                    ctx.add_sample({"kind": "restore event", "sn": e["sn"], "ok": e["ok"], "restored_items": e["ritems"][:8], "count": e["rcount"]})
                    break
        else:
            os.remove(tr)
        if ctx.violations and not T:
            break
    if nload_total(ctx) == 0:
        raise Infra("no restore was exercised")
    # concurrent backups
    if not ctx.violations or T:
        tr = os.path.join(ctx.wd, "wr_c05.ndjson")
        p = vlib.run_harness(["wr", "-out", tr, "-seed", vlib.seed() * 10 + 9, "-n", 1200 if T else 150, "-nomem", "-backup", os.path.join(ctx.wd, "wrbk")], timeout=1800)
        nres = sum(1 for l in open(tr) if '"e":"Restore"' in l)
        ctx.extra["concurrent_backups_restored"] = nres
        writers.judge_setlin(ctx, tr, "backup concurrent with writers, readers and GC (%d restores)" % nres, 150)
        if ctx.violations:
            v = ctx.violations[-1]
            if '"Restore"' in v["msg"]:
                v["msg"] = "C05:a backup taken while writers/GC were running does not restore the stored snapshot's content " + v["msg"][v["msg"].rfind("["):]
            else:
                writers.fix_msg(ctx, tr)
        os.remove(tr)
    # growth: Close racing a delta backup (Shutdown.tla)
    if not ctx.violations:
        vlib.stage_specs(ctx.wd, [])
        open(os.path.join(ctx.wd, "MC_Shutdown_gen.cfg"), "w").write(
            "SPECIFICATION Spec\nCONSTANTS\n  Workers = {w1, w2}\n  NItems = 2\n  MM = TRUE\nINVARIANT NoSendOnClosed\nINVARIANT BackupOutcome\nINVARIANT OkMeansHandshakesDone\nCHECK_DEADLOCK TRUE\n")
        r = vlib.run_tlc("Shutdown.tla", "MC_Shutdown_gen.cfg", ctx.wd, timeout=900)
        ctx.states += r.distinct
        ctx.transitions += r.generated
        ctx.mc_runs.append({"spec": "Shutdown.tla", "cfg": "MC_Shutdown_gen.cfg", "distinct_states": r.distinct, "states_generated": r.generated,
                            "depth": r.depth, "result": r.violated or "no error (no deadlock)"})
        log("[M1] Shutdown.tla: %d distinct states: %s" % (r.distinct, r.violated or "no deadlock, invariants hold"))
        if not r.ok:
            raise Infra("Shutdown.tla: " + str(r.violated))
        tr = os.path.join(ctx.wd, "shut.ndjson")
        p = vlib.run_harness(["shut", "-out", tr, "-dir", os.path.join(ctx.wd, "shutbk"), "-seed", vlib.seed(), "-n", 600 if T else 60], timeout=1800)
        vlib.judge_trace(ctx, "Trace_Backup.tla", "Trace_Backup.cfg", tr, "Close racing StoreToDisk (delta on/off)", 600 if T else 60, lambda e: True)
        os.remove(tr)
    ctx.assumptions += mvcc.ASSUME[:2] + ["mutations during the sequential backups run inside the item callback of the first scanned item (other shards keep scanning concurrently)",
                                            "items are non-empty (the format reserves length 0 as terminator)",
                                            "damaged or partial backups are C11/C12's subject"]
    return None


def nload_total(ctx):
    return ctx.extra.get("restores_validated", 0)
