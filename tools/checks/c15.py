"""C15 -- skiplist iterators stay ordered and complete under concurrent modification."""
import json, os, random, re
import vlib
from checks import skiplist as slc
from vlib import Infra, log


def judge_iter(ctx, tr, what):
    return vlib.judge_trace(ctx, "IterAPI.tla", "Trace_IterAPI.cfg", tr, what + " [iterator guarantees]", 0, slc.reset)


def run(ctx):
    if ctx.replay:
        return vlib.replay_dir(ctx, "IterAPI.tla", "Trace_IterAPI.cfg", slc.reset)
    T = ctx.thorough
    rng = random.Random(vlib.seed())
    ctx.rule = ("M1: TLC exhausts Skiplist.tla with an iterator process (SeekFirst / Seek / Next at the grain of iterator.go: load of the current "
                "node's link, helping unlink a marked current node, re-search after a lost race) next to 1-2 mutating processes: IterNoBackwards, "
                "IterOnlyPresent, IterSeekLands, IterComplete (ghost sets: keys present at some / at every moment of the scan); M3: TLC-simulated "
                "behaviours with iterator processes become gate schedules on the real skiplist, incl. deletion of the node the iterator stands on "
                "and of its predecessor; M2: random gate schedules and free-running goroutines (with Refresh and Pause/Resume); verdicts: "
                "IterAPI.tla judges every scan from the call/return log using only facts that hold under every linearization; "
                "Trace_Skiplist.tla replays each step and evaluates the model's iterator invariants on the real execution")
    iter_invs = ("NoDupKeys", "QStruct", "IterNoBackwards", "IterOnlyPresent", "IterSeekLands", "IterComplete")
    mcs = [("MC_SLI_1m.cfg", slc.cfg_text(["p1"], [1, 2], 3, 3, 1, invs=iter_invs, iters=["it1"]))]
    if T:
        mcs += [("MC_SLI_2m.cfg", slc.cfg_text(["p1", "p2"], [1, 2], 1, 2, 1, invs=iter_invs, iters=["it1"])),   # 2 mutators x 1 call: 304 k states (2 calls each: > 146 M, not finished in 40 min)
                ("MC_SLI_3k.cfg", slc.cfg_text(["p1"], [1, 2, 3], 3, 3, 1, invs=iter_invs, iters=["it1"]))]
    for name, text in mcs:
        r = slc.mc(ctx, name, text, timeout=2400)
        if not r.ok:
            raise Infra("Skiplist.tla (iterator instance %s) violates %s: model error; the real code is judged by traces" % (name, r.violated))
    # ---- M3
    sim = slc.cfg_text(["p1", "p2"], [1, 2, 3], 4, 8, 1, invs=(), iters=["it1"])
    open(os.path.join(ctx.wd, "Sim_SLI.cfg"), "w").write(sim)
    behs, r = vlib.simulate_behaviours("Skiplist.tla", "Sim_SLI.cfg", ctx.wd, 2500 if T else 400, 160, vlib.seed() + 11)
    scripts = []
    for i, b in enumerate(behs):
        labels = [re.sub(r"^a(?=[A-Z])", "", x) for x in b]
        sc = slc.to_script(labels, 1, rng.randrange(1 << 30), mm=(i % 2 == 1))
        # iterator operations of the model -> driver ops
        for lb in labels:
            m = re.match(r"^(SeekFirst|Seek|ItNext)\(([^)]*)\)$", lb)
            if m:
                args = [a.strip() for a in m.group(2).split(",")]
                sc["procs"].setdefault(args[0], []).append({"SeekFirst": ["itfirst"], "Seek": ["itseek", int(args[1]) if len(args) > 1 else 0], "ItNext": ["itnext"]}[m.group(1)])
        if sc["procs"]:
            scripts.append(sc)
    vlib.require_ops(ctx, scripts, "Skiplist.tla simulated behaviours with an iterator process")
    ctx.add_sample({"kind": "TLC-simulated behaviour with an iterator process as gate schedule (M3)", "procs": scripts[0]["procs"], "sched": scripts[0]["sched"][:40]})
    tr, info = slc.run_scripts(ctx, scripts, "m3iter")
    if info.get("failed"):
        raise Infra("gate reported %s" % info["failed"][:2])
    judge_iter(ctx, tr, "TLC-simulated schedules with an iterator")
    slc.validate(ctx, tr, info, "TLC-simulated schedules with an iterator", 1)
    ends = [json.loads(l) for l in open(tr) if '"SlEnd"' in l]
    ctx.extra["schedule_steps_followed_on_impl"] = "%d of %d gate steps followed the TLC behaviour" % (sum(e["followed"] for e in ends), sum(len(e["sched"]) for e in ends))
    nscan = sum(1 for l in open(tr) if '"ItCall"' in l and ('"itfirst"' in l or '"itseek"' in l))
    ctx.extra["scans_validated"] = nscan
    first_tr = tr
    # ---- M2
    if not ctx.violations or T:
        for top in ([1, 2, 3] if T else [1, 2]):
            tr = os.path.join(ctx.wd, "sli_m2_%d.ndjson" % top)
            p = vlib.run_harness(["sl", "-out", tr, "-seed", vlib.seed() * 10 + 50 + top, "-n", 1500 if T else 200, "-top", top, "-iters", 1 + top % 2] +
                                 (["-big"] if top > 1 else []), timeout=1800)
            info = json.loads(p.stdout.strip().splitlines()[-1])
            judge_iter(ctx, tr, "random gate schedules with iterators (top level %d)" % top)
            slc.validate(ctx, tr, info, "random gate schedules with iterators (top level %d)" % top, top, lin=(top == 1))
            ctx.extra["scans_validated"] += sum(1 for l in open(tr) if '"ItCall"' in l and ('"itfirst"' in l or '"itseek"' in l))
            os.remove(tr)
        tr = os.path.join(ctx.wd, "sli_free.ndjson")
        p = vlib.run_harness(["sl", "-out", tr, "-seed", vlib.seed() + 77, "-n", 8000 if T else 1500, "-top", 3, "-big", "-iters", 2, "-free"], timeout=1800)
        info = json.loads(p.stdout.strip().splitlines()[-1])
        judge_iter(ctx, tr, "free-running goroutines with iterators, Refresh and Pause/Resume")
        slc.validate(ctx, tr, info, "free-running goroutines with iterators", 3, fine=False)
        ctx.extra["scans_validated"] += sum(1 for l in open(tr) if '"ItCall"' in l and ('"itfirst"' in l or '"itseek"' in l))
        os.remove(tr)
    # ---- binding demonstration: make one recorded position go backwards
    if not ctx.violations:
        lines = open(first_tr).read().splitlines()
        done = False
        lastk = {}
        for i, ln_ in enumerate(lines):
            if '"ItPos"' in ln_:
                e = json.loads(ln_)
                if e["valid"] and lastk.get(e["p"], 0) >= 1 and not done:
                    e["k"] = 0
                    lines[i] = json.dumps(e)
                    done = True
                    end = next((k for k in range(i, len(lines)) if '"SlInit"' in lines[k]), len(lines))
                    start = max(k for k in range(0, i) if '"SlInit"' in lines[k])
                    lines = lines[start:end]
                    break
                if e["valid"]:
                    lastk[e["p"]] = e["k"]
        if done:
            cp = os.path.join(ctx.wd, "corrupt.ndjson")
            open(cp, "w").write("\n".join(lines) + "\n")
            saved = (ctx.events, ctx.traces, ctx.states, ctx.transitions)
            bad = ctx.validate("IterAPI.tla", "Trace_IterAPI.cfg", cp, "binding self-test (one yielded key replaced by a smaller one)", 0)
            ctx.events, ctx.traces, ctx.states, ctx.transitions = saved
            if bad is None:
                raise Infra("binding self-test failed: a scan going backwards was accepted")
            ctx.extra["binding_selftest"] = "scan with a decreasing key -> rejected: " + bad["msg"]
    ctx.assumptions += ["a deleted node counts as possibly present until it is physically unlinked at level 0 (its Delete call cannot have returned before)",
                        "free-running scans are judged with facts that hold under every linearization (definitely present / definitely absent keys), so the check is sound but not complete there; gate-scheduled scans are judged exactly through the model",
                        "Refresh and Pause/Resume are exercised in free-running mode only"]
    return None
