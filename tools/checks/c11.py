"""C11 -- restore detects damaged backups: error or exact, never silent, never stuck."""
import json, os, random, shutil
import vlib
from checks import backup
from vlib import Infra, log


def run(ctx):
    if ctx.replay:
        return vlib.replay_dir(ctx, "Trace_Backup.tla", "Trace_Backup.cfg", backup.reset)
    T = ctx.thorough
    ctx.rule = ("M1: TLC exhausts Backup.tla: C11_DamageDetected / C11_MultiShard -- for every completed backup reachable in the model, every single "
                "fault (each manifest missing or garbled, a listed shard name altered into another listed name, each shard missing, truncated at every "
                "unit, altered) and every subset of emptied shards "
                "leaves Load in {error, exact}, for 1 and 2 restore workers; "
                "M2 (fault enumeration on the real code): small databases are stored by a child process, then EVERY byte of EVERY file is altered "
                "(3 patterns; every digit of a manifest also to every other digit), every file truncated at EVERY length and removed, plus random multi-shard combinations (up to all shards); "
                "LoadFromDisk runs under a watchdog with panic capture; each outcome is an event judged by TLC (Trace_Backup.tla): "
                "error, or items and Count() exactly those of the stored snapshot")
    backup.model_check(ctx, 2, [2, 1], 1)
    backup.model_check(ctx, 2, [1, 1], 2)
    if T:
        backup.model_check(ctx, 3, [2, 1, 0], 1)
        backup.model_check(ctx, 3, [1, 1, 1], 2)
    rng = random.Random(vlib.seed())
    # fixkey + many items per shard: runs of consecutive equal-length keys, whose CRC32s cancel in the XOR checksum
    configs = [dict(conc=1), dict(conc=2, kv=True, mm=True), dict(conc=2, fixkey=True, items=200)]
    if T:
        configs += [dict(conc=8, kv=True), dict(conc=16, mm=True), dict(conc=1, delta=True), dict(conc=2, delta=True, mm=True, gcduring=True),
                    dict(conc=1, older=True), dict(conc=3, older=True, kv=True), dict(conc=2, kv=True, lblk=16), dict(conc=4, delta=True, lblk=64), dict(conc=2, delta=True, gcduring=True, mm=True, writers=vlib.NCPU + 3)]
    else:
        configs += [dict(conc=2, delta=True, gcduring=True, lblk=16, writers=vlib.NCPU + 2)]
    nproc = min(16, vlib.NCPU)
    total = 0
    classes = {}
    for ci, o in enumerate(configs):
        base = os.path.join(ctx.wd, "base%d" % ci)
        extra = []
        if o.get("gcduring"):
            extra.append("-gcduring")
        if o.get("older"):
            extra.append("-older")
        if o.get("writers"):
            extra += ["-writers", str(o["writers"])]
        items = o.get("items") or (40 if not T else rng.choice([24, 40, 60]))
        g = backup.gen(ctx, base, vlib.seed() * 100 + ci, items, backup.opt_list(o), extra)
        if g["ret"] != "ok":
            raise Infra("bk-gen: StoreToDisk failed without faults: " + g["ret"])
        dextra = ["-multi", "60" if T else "24", "-seed", str(vlib.seed())]
        if not T:
            # quick tier: every byte of the manifests and frame boundaries, every 2nd byte inside bodies (phase by seed)
            dextra += ["-sample", "2", "-phase", str(vlib.seed() % 2)]
        evs = backup.damage_run(ctx, base, g, o, nproc, dextra, what="dmg%d" % ci)
        evs.sort(key=lambda e: e["case"])
        slow = [e for e in evs if e["outcome"] == "slow"]
        if slow:
            log("note: %d loads still running at the watchdog without a blocked feeder (not a verdict), e.g. %s" % (len(slow), slow[0].get("descr")))
        for e in evs:
            k = "%s/%s/%s" % (e["kind"], e["class"], e["outcome"])
            classes[k] = classes.get(k, 0) + 1
        total += len(evs)
        ctx.add_sample({"kind": "damage cases (config %s)" % json.dumps(o), "view_len": len(g["view"]),
                        "examples": [{k: e[k] for k in ("file", "kind", "off", "pat", "class", "outcome", "msg")} for e in evs[:: max(1, len(evs) // 4)][:4]]})
        backup.judge(ctx, [backup.gen_event(g, {"cfg": o})] + evs, "damage enumeration config %d %s" % (ci, json.dumps(o)), len(evs))
        shutil.rmtree(base, ignore_errors=True)
        if ctx.violations and not T:
            break
    ctx.extra["damaged_images_loaded"] = total
    ctx.extra["outcomes_by_kind_class"] = classes
    ctx.assumptions += ["damage = one byte altered (xor 0x01, xor 0x80, set to 0xff/0x00), one file truncated or removed, or a random combination over several shard files; "
                        "the top byte of a length prefix is only altered by +1 (x16 MiB): larger values merely request >= 2 GiB of memory",
                        "a load that is still running at the watchdog is a hang only if its goroutine dump shows the feeder blocked in a channel send with no worker left; otherwise it is reported as 'slow' and not judged",
                        "a process-fatal error inside a library goroutine is attributed to the announced case as 'panic'; out-of-memory is not a verdict",
                        "quick tier samples every 2nd byte offset inside shard files (all offsets near file ends, every offset of the manifests); thorough alters every byte",
                        "Backup.tla assumes the worst case for the XOR-of-CRC32 shard checksum: two different shards holding the same number of items may have equal checksums"]
    return None
