"""C04 -- safe memory reclamation: no use-after-free and no double free."""
import os
import vlib
from checks import writers, nwriters
from vlib import Infra, log


def run(ctx):
    if ctx.replay:
        return vlib.replay_dir(ctx, "MemAPI.tla", "Trace_MemAPI.cfg", writers.reset)
    T = ctx.thorough
    ctx.rule = ("M1: TLC exhausts NitroWriters.tla with an abstract barrier (sessions, tokens, in-order destruction), GC worker and free worker: "
                "NoUAF (no step dereferences a freed node), NoDoubleFree, FreedImpliesUnlinked; Skiplist.tla's NoMarkedLinked and AccessBarrier.tla's "
                "C16 invariants are checked by the C13/C16 checks; M2: user-managed memory with (a) a guard-page allocator in a child process -- "
                "every block on its own pages, made inaccessible on free and never reused, so a read or write after free faults at once and is "
                "attributed by address -- and (b) a registry allocator with poison (double / invalid frees recorded exactly); workloads: "
                "concurrent Put/Delete/Delete2 on shared keys (same-epoch and cross-epoch deletes), iterators with refresh rates {0,1,3} and "
                "visitors dereferencing every item, snapshot churn, GC and free workers; plus churn runs: Visitor (2-32 shards), refreshing iterators "
                "and StoreToDisk loop over a pinned snapshot while two writers insert and delete neighbouring keys within the current epoch "
                "(every pointer a reader keeps across its tokens is exposed to reclamation); scenario kinds rotate over: instance built by Put / "
                "restored by LoadFromDisk with its writers created before the restore, pinned first snapshot / rolling latest snapshot (collection "
                "and free workers busy), plain / delta-interleaved backups whose callbacks check the item handed to them against the allocator's "
                "registry; allocator events and faults are judged by TLC (MemAPI.tla)")
    nwriters.model_check(ctx, T)
    nwriters.conformance(ctx, T, 41)
    plan = [("guard", 150, True, False), ("registry", 300, False, False), ("guard-large", 60, True, True)]
    if T:
        plan = [("guard", 1500, True, False), ("registry", 3000, False, False), ("guard-large", 600, True, True), ("registry-large", 1000, False, True)]
    for i, (name, n, guard, big) in enumerate(plan):
        tr, ns, crashes = writers.run_wr(ctx, "c04_%d" % i, vlib.seed() * 10 + 3 + i, n, guard=guard, mm=1, big=big)
        ctx.extra["child_crashes_%s" % name] = crashes
        writers.judge_mem(ctx, tr, "%s allocator, %d scenarios" % (name, n), ns)
        ctx.traces += ns
        if i == 0:
            import json
            evs = []
            with open(tr) as f:
                for line in f:
                    e = json.loads(line)
                    if e["e"] in ("M", "Closed", "Fault"):
                        evs.append(e)
                    if len(evs) >= 6:
                        break
            ctx.add_sample({"kind": "allocator events of a recorded run", "events": evs})
        os.remove(tr)
        if ctx.violations and not T:
            break
    # sequential histories (all delete APIs, snapshots closed in any order, garbage lists unlinked at arbitrary points) in which the
    # driver chains the live nodes through the public NodeList helper (their Link fields), as an application's back index does;
    # judged with the allocator's verdict after Close and with faults on poisoned memory turned into Panic events
    if not ctx.violations or T:
        from checks import mvcc
        tr, info = mvcc.run_random(ctx, "c04_seq", 600 if T else 100, 140, "gc", 6, seed_off=404)
        mvcc.judge(ctx, tr, info, "sequential histories with nodes chained in a NodeList (allocator verdict at Close)")
        ctx.traces += info["scenarios"]
        os.remove(tr)
    # readers that keep pointers across their accessor tokens (visitor pivots, iterator cursors, backup shards)
    # against same-epoch insert/delete churn on neighbouring keys
    if not ctx.violations or T:
        for i, (name, n, secs, guard) in enumerate([("guard", 4, 2, True), ("registry", 8, 2, False)] if not T else [("guard", 40, 3, True), ("registry", 64, 3, False)]):
            tr, ns, crashes = writers.run_wr(ctx, "c04_churn%d" % i, vlib.seed() * 10 + 7 + i, n, guard=guard, mm=1, nomem=True,
                                             extra=["-churn", secs, "-backup", os.path.join(ctx.wd, "churnbk")])
            ctx.extra["child_crashes_churn_%s" % name] = crashes
            ctx.extra["churn_reader_passes_%s" % name] = sum(1 for l in open(tr) if '"e":"RScan"' in l or '"e":"Restore"' in l)
            writers.judge_mem(ctx, tr, "%s allocator, %d x %ds of visitors / refreshing iterators / backups of a pinned snapshot against same-epoch churn" % (name, n, secs), ns)
            ctx.traces += ns
            os.remove(tr)
            if ctx.violations and not T:
                break
    ctx.assumptions += ["use after free is detected by fault (guard pages) or by poison; a read of a freed block that the registry allocator has poisoned but that does not crash is not detected in registry mode",
                        "the harness dereferences every item an iterator or visitor hands out before the iterator moves on",
                        "a crash of the child that is not on freed memory (or an out-of-memory condition) is an infrastructure error, not a verdict"]
    return None
