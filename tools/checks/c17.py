"""C17 -- access barrier liveness: at quiescence nothing is left pending."""
from checks import barrier


def run(ctx):
    return barrier.run(ctx)
