"""C19 -- item encoding, file framing and checksums round-trip.  spec: Framing.tla; binding: Trace_Framing.tla."""
import json, os
import vlib
from vlib import Infra, log


def reset(e):
    return True      # every event is self-contained


def run(ctx):
    if ctx.replay:
        return vlib.replay_dir(ctx, "Trace_Framing.tla", "Trace_Framing.cfg", reset)
    T = ctx.thorough
    ctx.rule = ("M1: TLC evaluates Framing.tla's C19_RoundTrip / C19_Truncation / C19_Checksum / C19_KV / C19_CompareKV for ALL streams of <= 3 items "
                "of length 1..2 (thorough 1..3) over the alphabet {0,1,255} (bytes that look like length prefixes and terminators), both format "
                "versions; M2: seeded item sequences (lengths 1..70000, all-zero / all-0xff / embedded-header / random contents, DiskBlockSize "
                "16..512K so that buffer flushes fall inside frames) are written through the real FileWriter and read through the real FileReader; "
                "v0 files are read by the real v0 reader; TLC recomputes Encode() with the spec operators and compares the file byte for byte, "
                "the decoded items, end-of-stream, and reader = writer checksum; streams with one item of 16 MiB or more (the upper bytes of the "
                "4-byte prefix) are judged by their frame headers at the prescribed offsets, file size and the reader's results; "
                "KVToBytes/KVFromBytes/CompareKV likewise")
    vlib.stage_specs(ctx.wd, [])
    il, mi = (3, 3) if T else (2, 3)
    cfg = ("SPECIFICATION FSpec\nCONSTANTS\n  Alphabet = {0, 1, 255}\n  MaxItemLen = %d\n  MaxItems = %d\n" % (il, mi) +
           "".join("INVARIANT %s\n" % i for i in ("C19_RoundTrip", "C19_Truncation", "C19_Checksum", "C19_KV", "C19_CompareKV")) + "CHECK_DEADLOCK FALSE\n")
    open(os.path.join(ctx.wd, "MC_Framing_gen.cfg"), "w").write(cfg)
    r = vlib.run_tlc("Framing.tla", "MC_Framing_gen.cfg", ctx.wd, timeout=2400)
    nitems = sum(3 ** k for k in range(1, il + 1))
    nstreams = sum(nitems ** k for k in range(0, mi + 1))
    ctx.states += r.distinct
    ctx.transitions += max(r.generated, 1)
    ctx.mc_runs.append({"spec": "Framing.tla", "cfg": "MC_Framing_gen.cfg", "result": r.violated or "no error", "wall_s": round(r.wall, 1),
                        "streams_enumerated_per_version": nstreams, "note": "state-independent invariants evaluated over all streams of the instance"})
    log("[M1] Framing.tla: %d streams x 2 versions: %s (%.0fs)" % (nstreams, r.violated or "all properties hold", r.wall))
    if not r.ok:
        raise Infra("Framing.tla violates %s (model error)" % r.violated)
    ctx.extra["streams_exhausted_in_model"] = 2 * nstreams
    tot = 3000 if T else 300
    per = 300
    first = None
    for part in range(0, tot, per):
        tr = os.path.join(ctx.wd, "frame_%d.ndjson" % part)
        p = vlib.run_harness(["frame", "-out", tr, "-dir", ctx.wd, "-seed", vlib.seed() * 1000 + part, "-n", per, "-big",
                              "-huge", (2 if part == 0 else 0) if not T else 4])
        info = json.loads(p.stdout.strip().splitlines()[-1])
        if first is None:
            with open(tr) as f:
                e = json.loads(next(f))
                ctx.add_sample({"kind": "recorded stream (M2)", "ver": e["ver"], "item_lengths": [len(x) for x in e["items"]],
                                "file_prefix": e["file"][:24], "wsum": e["wsum"], "rsum": e["rsum"]})
                ctx.add_sample({"kind": "recorded KV event", "event": json.loads(next(f))})
        ok = vlib.judge_trace(ctx, "Trace_Framing.tla", "Trace_Framing.cfg", tr, "framing round trips", info["scenarios"], reset)
        if first is None and ok:
            first = tr
        else:
            os.remove(tr)
        if ctx.violations:
            break
    if first and not ctx.violations:
        lines = open(first).read().splitlines()
        hit = None
        for i, ln_ in enumerate(lines):
            if '"Stream"' not in ln_:
                continue
            e = json.loads(ln_)
            if e.get("e") == "Stream" and len(e["file"]) > 6:
                e["file"][5] = (e["file"][5] + 1) % 256
                lines[i] = json.dumps(e)
                hit = i
                break
        if hit is None:
            raise Infra("binding self-test: no Stream event with a file of more than 6 bytes in the trace (vacuous)")
        lines = lines[:max(30, hit + 1)]
        cp = os.path.join(ctx.wd, "corrupt.ndjson")
        open(cp, "w").write("\n".join(lines) + "\n")
        saved = (ctx.events, ctx.traces, ctx.states, ctx.transitions)
        bad = ctx.validate("Trace_Framing.tla", "Trace_Framing.cfg", cp, "binding self-test (one file byte altered)", 0)
        ctx.events, ctx.traces, ctx.states, ctx.transitions = saved
        if bad is None:
            raise Infra("binding self-test failed: corrupted trace was accepted")
        ctx.extra["binding_selftest"] = "one altered file byte rejected: " + bad["msg"]
    ctx.assumptions += ["CRC32 is uninterpreted in the model (checksums are XOR-bags); recorded checksums are compared implementation-to-implementation (reader = writer, read before Close as StoreToDisk does)",
                        "v0 streams are laid out by the harness (the repository has no v0 writer) and must equal the spec's Encode(items, 0) before the real v0 reader's output is judged",
                        "this is the weakest fit of the technique (a pure codec): the specification is an executable oracle, TLC its evaluator"]
    return None
