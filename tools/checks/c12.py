"""C12 -- backup never reports success for, or leaves behind, a silently partial backup."""
import json, os, random, shutil
import vlib
from checks import backup
from vlib import Infra, log


def run(ctx):
    if ctx.replay:
        return vlib.replay_dir(ctx, "Trace_Backup.tla", "Trace_Backup.cfg", backup.reset)
    T = ctx.thorough
    ctx.rule = ("M1: TLC exhausts Backup.tla (one action per file-system mutation of StoreToDisk, buffered writes flushed at any time, Crash and "
                "DiskFull enabled between any two mutations): C12_NoSilentPartial (ret = ok => Load = exact) and C12_CrashSafe (crash => Load in "
                "{error, exact}); M2 write failures: the real StoreToDisk runs in a child process under RLIMIT_FSIZE = every value from 0 to the "
                "largest file size (+ margin), SIGXFSZ ignored so writes fail with EFBIG, with small disk blocks; the directory it leaves is loaded; "
                "M2 crash points: the child runs under strace, its sequence of file-system mutations (mkdir/creat/write/close with payloads) is "
                "compared with Backup.tla's order and EVERY prefix of it is materialised as a directory and given to the real LoadFromDisk; all "
                "outcomes are events judged by TLC (Trace_Backup.tla)")
    backup.model_check(ctx, 2, [2, 1], 1)
    if T:
        backup.model_check(ctx, 3, [2, 1, 0], 1)
        backup.model_check(ctx, 2, [2, 2], 2)
    # items=400: shard files larger than the manifests, so that a size limit can hit the data only
    # items=400 with the default block size: every shard is written by the final flush in Close only, and is larger than the manifests
    configs = [dict(conc=2, blk=16), dict(conc=1, kv=True, mm=True, blk=64, items=400), dict(conc=2, kv=True, blk=0, items=400), dict(conc=2, delta=True, gcduring=True, blk=16, writers=vlib.NCPU + 2)]   # more writers than CPUs: the delta manifests are the largest manifests
    if T:
        configs += [dict(conc=8, blk=0), dict(conc=2, delta=True, mm=True, blk=32), dict(conc=1, older=True, blk=16),
                    dict(conc=3, delta=True, gcduring=True, kv=True, blk=8)]
    nfs = ncrash = 0
    for ci, o in enumerate(configs):
        opts = backup.opt_list(o)
        extra = []
        if o.get("blk"):
            extra += ["-blk", str(o["blk"])]
        if o.get("gcduring"):
            extra.append("-gcduring")
        if o.get("older"):
            extra.append("-older")
        if o.get("writers"):
            extra += ["-writers", str(o["writers"])]
        seed = vlib.seed() * 100 + 50 + ci
        items = o.get("items", 30)
        # ---- crash points (strace)
        base = os.path.join(ctx.wd, "c12base%d" % ci)
        st = os.path.join(ctx.wd, "strace%d.txt" % ci)
        g = backup.gen(ctx, base, seed, items, opts, extra, strace=st)
        if g["ret"] != "ok":
            raise Infra("bk-gen under strace failed: " + g["ret"])
        muts = backup.parse_strace(st, base)
        os.remove(st)
        if len(muts) < 10:
            raise Infra("strace recorded only %d mutations" % len(muts))
        if any(m["op"] in ("rename", "renameat", "unlink", "unlinkat", "ftruncate") for m in muts):
            raise Infra("unexpected kind of mutation in StoreToDisk (model has no such action)")
        # sanity: replaying all mutations reproduces the directory
        full = os.path.join(ctx.wd, "c12full%d" % ci)
        backup.materialise(muts, len(muts), full)
        for root, _, fs in os.walk(base):
            for f in fs:
                a = os.path.join(root, f)
                b = os.path.join(full, os.path.relpath(a, base))
                if not os.path.exists(b) or open(a, "rb").read() != open(b, "rb").read():
                    raise Infra("strace replay does not reproduce %s" % os.path.relpath(a, base))
        shutil.rmtree(full)
        entries = []
        for k in range(len(muts) + 1):
            d = os.path.join(ctx.wd, "crash%d_%d" % (ci, k))
            backup.materialise(muts, k, d)
            last = muts[k - 1] if k else {"op": "start", "file": ""}
            entries.append({"dir": d, "k": k, "after": "%s %s" % (last["op"], last["file"])})
        res = backup.load_batch(ctx, entries, o, "crash%d" % ci)
        for e in entries:
            shutil.rmtree(e["dir"], ignore_errors=True)
        evs = [backup.gen_event(g, {"cfg": o})] + backup.sys_events(muts, g["nshards"])
        for r in res:
            r["e"] = "CrashLoad"
            r.pop("dir", None)
            evs.append(r)
        ncrash += len(res)
        ctx.add_sample({"kind": "crash prefixes (config %s)" % json.dumps(o), "mutations": len(muts),
                        "order": [("%s %s" % (m["op"], m["file"])) for m in muts[:3] + muts[len(muts) // 2:len(muts) // 2 + 3] + muts[-3:]],
                        "outcomes": [(r["k"], r["after"], r["outcome"]) for r in res[:: max(1, len(res) // 6)]]})
        backup.judge(ctx, evs, "crash points config %d %s" % (ci, json.dumps(o)), len(res))
        # ---- write failures (RLIMIT_FSIZE sweep)
        sizes = []
        for root, _, fs in os.walk(base):
            sizes += [os.path.getsize(os.path.join(root, f)) for f in fs]
        shutil.rmtree(base, ignore_errors=True)
        limits = list(range(0, max(sizes) + 3))
        if not T and len(limits) > 120:
            rng = random.Random(vlib.seed())
            limits = sorted(set(limits[:40] + rng.sample(limits[40:], 60) + limits[-20:]))
        entries = []
        rets = {}
        for L in limits:
            d = os.path.join(ctx.wd, "fsize%d_%d" % (ci, L))
            gl = backup.gen(ctx, d, seed, items, opts, extra + ["-limit", str(L)])
            if gl["view"] != g["view"]:
                raise Infra("bk-gen is not deterministic for a seed")
            rets[L] = gl["ret"]
            entries.append({"dir": d, "limit": L, "ret": "ok" if gl["ret"] == "ok" else "err", "reterr": gl["ret"][:80]})
        res = backup.load_batch(ctx, entries, o, "fsize%d" % ci)
        for e in entries:
            shutil.rmtree(e["dir"], ignore_errors=True)
        evs = [backup.gen_event(g, {"cfg": o})]
        for r in res:
            r["e"] = "FsizeStore"
            r.pop("dir", None)
            evs.append(r)
        nfs += len(res)
        nok = sum(1 for r in res if r["ret"] == "ok")
        ctx.add_sample({"kind": "file-size limits (config %s)" % json.dumps(o), "limits": len(limits), "stores_reporting_ok": nok,
                        "examples": [(r["limit"], r["ret"], r["outcome"]) for r in res[:: max(1, len(res) // 6)]]})
        if nok == len(res):
            raise Infra("no store failed under any file-size limit: the fault injection is not effective")
        backup.judge(ctx, evs, "write failures config %d %s" % (ci, json.dumps(o)), len(res))
        if ctx.violations and not T:
            break
    ctx.extra["crash_prefix_directories_loaded"] = ncrash
    ctx.extra["write_failure_runs"] = nfs
    ctx.assumptions += ["crash model: process death between two file-system syscalls (as recorded by strace -f); torn single writes, power loss and directory-entry durability are out of scope",
                        "write failures are injected with RLIMIT_FSIZE (every file stops growing at the same byte: EFBIG), a stand-in for a full disk",
                        "the syscall order is compared with Backup.tla's order as binding evidence (MODEL-DRIFT), not as a verdict"]
    return None
