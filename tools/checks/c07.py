"""C07 -- every allocated block is released exactly once by Close."""
import os
import vlib
from checks import writers, nwriters
from vlib import Infra, log


def run(ctx):
    if ctx.replay:
        return vlib.replay_dir(ctx, "MemAPI.tla", "Trace_MemAPI.cfg", writers.reset)
    T = ctx.thorough
    ctx.rule = ("M1: TLC exhausts NitroWriters.tla: AllFreedOnceAtClose (after every snapshot is closed, the workers drained and Close ran, every "
                "allocated node has been freed exactly once); M2: user-managed memory through the registry allocator; histories with rejected "
                "Puts, same-epoch and cross-epoch deletes by contending writers, pinned snapshots closed late, readers, and instances populated by "
                "LoadFromDisk (store -> restore -> more operations -> Close); every malloc/free is an event and TLC (MemAPI.tla) requires at Close: "
                "allocated = freed, no block freed twice, no unknown pointer freed")
    nwriters.model_check(ctx, T)
    nwriters.conformance(ctx, T, 71)
    plan = [("contended writers", 300, False), ("large", 80, True)]
    if T:
        plan = [("contended writers", 3000, False), ("large", 800, True)]
    for i, (name, n, big) in enumerate(plan):
        tr, ns, crashes = writers.run_wr(ctx, "c07_%d" % i, vlib.seed() * 10 + 6 + i, n, mm=1, big=big)
        writers.judge_mem(ctx, tr, "%s, %d scenarios" % (name, n), ns)
        ctx.traces += ns
        os.remove(tr)
    # instances populated by LoadFromDisk
    tr = os.path.join(ctx.wd, "restore.ndjson")
    p = vlib.run_harness(["wr-restore", "-out", tr, "-dir", os.path.join(ctx.wd, "bk"), "-seed", vlib.seed(), "-n", 400 if T else 40], timeout=1500)
    import json
    info = json.loads(p.stdout.strip().splitlines()[-1])
    writers.judge_mem(ctx, tr, "store / restore / operate / Close, %d instances" % info["scenarios"], info["scenarios"])
    ctx.traces += info["scenarios"]
    with open(tr) as f:
        evs = [json.loads(l) for l in f if '"Closed"' in l][:3]
    ctx.add_sample({"kind": "allocator totals at Close", "events": evs})
    ctx.assumptions += ["Close is called after every snapshot and iterator has been closed (the API's contract)"]
    return None
