"""C07 -- every allocated block is released exactly once by Close."""
import os
import vlib
from checks import writers, nwriters
from vlib import Infra, log


def run(ctx):
    if ctx.replay:
        return vlib.replay_dir(ctx, "MemAPI.tla", "Trace_MemAPI.cfg", writers.reset)
    T = ctx.thorough
    ctx.rule = ("M1: TLC exhausts NitroWriters.tla: AllFreedOnceAtClose (after every snapshot is closed, the workers drained and Close ran, every "
                "allocated node has been freed exactly once); M2: user-managed memory through the registry allocator; histories with rejected "
                "Puts, same-epoch and cross-epoch deletes by contending writers, pinned snapshots closed late, readers, and instances populated by "
                "LoadFromDisk (store -> restore -> more operations -> Close); every malloc/free is an event and TLC (MemAPI.tla) requires at Close: "
                "allocated = freed, no block freed twice, no unknown pointer freed; plus LoadFromDisk of damaged backups (every file removed / truncated / "
                "altered) followed by Close: the allocator must be empty whether the restore succeeded or failed (Trace_Backup.tla)")
    nwriters.model_check(ctx, T)
    nwriters.conformance(ctx, T, 71)
    plan = [("contended writers", 300, False), ("large", 80, True)]
    if T:
        plan = [("contended writers", 3000, False), ("large", 800, True)]
    for i, (name, n, big) in enumerate(plan):
        tr, ns, crashes = writers.run_wr(ctx, "c07_%d" % i, vlib.seed() * 10 + 6 + i, n, mm=1, big=big)
        writers.judge_mem(ctx, tr, "%s, %d scenarios" % (name, n), ns)
        ctx.traces += ns
        os.remove(tr)
    # instances populated by LoadFromDisk
    tr = os.path.join(ctx.wd, "restore.ndjson")
    p = vlib.run_harness(["wr-restore", "-out", tr, "-dir", os.path.join(ctx.wd, "bk"), "-seed", vlib.seed(), "-n", 400 if T else 40], timeout=1500)
    import json
    info = json.loads(p.stdout.strip().splitlines()[-1])
    writers.judge_mem(ctx, tr, "store / restore / operate / Close, %d instances" % info["scenarios"], info["scenarios"])
    ctx.traces += info["scenarios"]
    with open(tr) as f:
        evs = [json.loads(l) for l in f if '"Closed"' in l][:3]
    ctx.add_sample({"kind": "allocator totals at Close", "events": evs})
    # instances on which LoadFromDisk FAILED (damaged backups): Close must still release everything the restore allocated
    from checks import backup
    import shutil
    o = dict(conc=2, kv=True, mm=True)
    base = os.path.join(ctx.wd, "c07base")
    g = backup.gen(ctx, base, vlib.seed() * 100 + 77, 24, backup.opt_list(o), [])
    if g["ret"] != "ok":
        raise Infra("bk-gen: StoreToDisk failed without faults: " + g["ret"])
    dextra = ["-multi", "40" if T else "12", "-seed", str(vlib.seed())] + ([] if T else ["-sample", "6", "-phase", str(vlib.seed() % 6)])
    evs = backup.damage_run(ctx, base, g, o, min(16, vlib.NCPU), dextra, what="c07dmg")
    evs.sort(key=lambda e: e["case"])
    ctx.extra["failed_restores_then_close"] = sum(1 for e in evs if e["outcome"] == "err")
    backup.judge(ctx, [backup.gen_event(g, {"cfg": o})] + evs, "Close after LoadFromDisk of damaged backups (allocator checked after Close)", len(evs))
    shutil.rmtree(base, ignore_errors=True)
    ctx.assumptions += ["Close is called after every snapshot and iterator has been closed (the API's contract)"]
    return None
