"""Shared driver for the properties decided on NitroMVCC.tla (C01, C02, C06, C09, C10).

M1  TLC exhausts one instance per property family (cfg text generated here from the parameters);
M3  an edge cover (thorough) or a seeded sample of edge-covering walks (quick) of the dumped state
    graph is executed on the real store -- one implementation step per model transition;
M2  seeded random histories (several writers from one goroutine, out-of-order closes, held GC lists,
    iterators with refresh, visitors) are executed and recorded;
every recorded trace is validated by TLC against Trace_NitroMVCC (verdict = `bad` messages)."""
import re
import json, os, random
import vlib, graph
from vlib import Infra, log

MC_INVS = {
    "gc": ["TypeOK", "C01_SnapshotImmutable", "C02_LiveMatches", "C02_Results", "C02_Counts", "C06_Retained",
           "C06_CollectorProgress", "C06_Precise", "C06_NoEarlyUnlink", "C08_OpenIffNotRetired", "C08_RefNonNeg",
           "C10_VisitPartition"],
    "iter": ["TypeOK", "C01_SnapshotImmutable", "C02_LiveMatches", "C06_Retained", "C08_RefNonNeg", "C09_IterExact"],
}


def mc_cfg(keys, vals, writers, maxsn, maxref, rates, iters, pivots, invs, fix1=True, fix2=True):
    def S(xs):
        return "{" + ", ".join(str(x) for x in xs) + "}"
    return ("SPECIFICATION Spec\nCONSTANTS\n  Keys = %s\n  Vals = %s\n  Writers = %s\n  MaxSn = %d\n  MaxRef = %d\n  MaxCnt = 2\n"
            "  Rates = %s\n  Iters = %s\n  MaxPivots = %d\n  FIXD1 = %s\n  FIXD2 = %s\n%s\nCHECK_DEADLOCK FALSE\n" %
            (S(keys), S(vals), S(writers), maxsn, maxref, S(rates), S(iters), pivots,
             "TRUE" if fix1 else "FALSE", "TRUE" if fix2 else "FALSE",
             "\n".join("INVARIANT " + i for i in invs)))


def opname(op):
    op[0] = {"PutB": "Put", "DeleteB": "Delete"}.get(op[0], op[0])
    if op[0] in ("CloseSnapU", "IterCloseU"):      # composed actions: CloseSnap(s) == CloseSnapU(s, {})
        op = [op[0][:-1], op[1]]
    return op


def reset(e):
    return e.get("e") == "Init"


def model_check(ctx, name, cfgtext, dump=True, timeout=1500):
    vlib.stage_specs(ctx.wd, [])
    cfgname = "MC_%s.cfg" % name
    open(os.path.join(ctx.wd, cfgname), "w").write(cfgtext)
    extra = []
    dumpf = None
    if dump:
        dumpf = "graph_" + name
        extra = ["-dump", "dot,actionlabels", dumpf]
    r = vlib.run_tlc("NitroMVCC.tla", cfgname, ctx.wd, extra=extra, timeout=timeout)
    ctx.states += r.distinct
    ctx.transitions += r.generated
    ctx.mc_runs.append({"spec": "NitroMVCC.tla", "instance": name, "constants": cfgtext.split("CONSTANTS")[1].split("INVARIANT")[0].split(),
                        "invariants": [l.split()[1] for l in cfgtext.splitlines() if l.startswith("INVARIANT")],
                        "distinct_states": r.distinct, "states_generated": r.generated, "depth": r.depth,
                        "wall_s": round(r.wall, 1), "result": r.violated or "no error"})
    log("[M1] NitroMVCC/%s: %d distinct states, %d generated, depth %d, %.0fs: %s" %
        (name, r.distinct, r.generated, r.depth, r.wall, r.violated or "all invariants hold"))
    return r, (os.path.join(ctx.wd, dumpf + ".dot") if dump else None)


def scripts_from_graph(ctx, dot, rng, max_scripts, nwriters, variants):
    nodes, init, edges, nedges = graph.parse_dot(dot)
    scripts, covered, total = graph.edge_cover(init, edges, rng, max_scripts)
    out = []
    for n, (root, labels) in enumerate(scripts):
        kv, mm = variants[n % len(variants)]
        ops = [opname(graph.parse_label(x)) for x in labels]
        out.append({"cfg": {"kv": kv, "mm": mm, "writers": nwriters, "hold": True}, "ops": ops})
    return out, covered, total


def run_scripts(ctx, scripts, what, timeout=1800):
    sp = os.path.join(ctx.wd, "scripts_%s.ndjson" % what)
    with open(sp, "w") as f:
        for s in scripts:
            f.write(json.dumps(s) + "\n")
    tr = os.path.join(ctx.wd, "trace_%s.ndjson" % what)
    p = vlib.run_harness(["mvcc", "-out", tr, "-scripts", sp, "-hangdump", os.path.join(ctx.wd, "hang.txt")], timeout=timeout, check=False)
    if p.returncode != 0:
        return crashed(ctx, tr, p, what)
    return tr, json.loads(p.stdout.strip().splitlines()[-1])


def crashed(ctx, tr, p, what):
    """The driver died (a fatal fault or panic inside one of the library's own goroutines cannot be recovered in-process).
    A death on freed memory is behaviour of the code under test: it is recorded as a Fault event after the scenarios
    completed so far (judged by the trace specification); anything else is an infrastructure error."""
    from checks import writers
    if not re.search(r"^(panic:|fatal error:|unexpected fault address)", p.stderr, re.M):
        raise Infra("harness mvcc died without a Go panic message (rc=%s): killed from outside? %s" % (p.returncode, p.stderr[-300:]))
    msg, kind = writers.classify_crash(p.stderr)
    if kind == "infra":
        raise Infra("harness mvcc crashed for a reason unrelated to freed memory:\n" + p.stderr[-3000:])
    lines = [l for l in (open(tr).read().splitlines() if os.path.exists(tr) else []) if l.endswith("}")]
    lines.append(json.dumps({"e": "Fault", "msg": msg}))
    open(tr, "w").write("\n".join(lines) + "\n")
    log("note: the mvcc driver died on freed memory (%s); judging %d recorded events + the fault" % (what, len(lines) - 1))
    return tr, {"scenarios": sum(1 for l in lines if '"e":"Init"' in l.replace(" ", "")), "events": len(lines), "failed": []}


def run_random(ctx, what, n, ln, profile, keys, seed_off=0, timeout=1800):
    tr = os.path.join(ctx.wd, "trace_%s.ndjson" % what)
    p = vlib.run_harness(["mvcc", "-out", tr, "-seed", vlib.seed() * 1000 + seed_off, "-n", n, "-len", ln, "-profile", profile,
                          "-keys", keys, "-hangdump", os.path.join(ctx.wd, "hang.txt")], timeout=timeout, check=False)
    if p.returncode != 0:
        return crashed(ctx, tr, p, what)
    return tr, json.loads(p.stdout.strip().splitlines()[-1])


def judge(ctx, tr, info, what, timeout=2400):
    if info.get("failed"):
        hang = [f for f in info["failed"] if "HANG" in f]
        if hang:
            # the harness stopped at a call that did not return within its 30 s watchdog; the trace ends with that event
            log("harness watchdog: " + hang[0])
        else:
            raise Infra("%s: harness reported %s" % (what, info["failed"][:3]))
    with open(tr) as f:
        first = [json.loads(next(f)) for _ in range(min(4, info["events"]))]
    ctx.add_sample({"kind": what, "first_events": [{k: v for k, v in e.items() if k in
                    ("e", "cfg", "w", "k", "v", "ok", "sn", "i", "rate", "valid", "item", "phys", "scans", "res", "picked")} for e in first]})
    return vlib.judge_trace(ctx, "Trace_NitroMVCC.tla", "Trace_NitroMVCC.cfg", tr, what, info["scenarios"], reset, timeout=timeout)


def binding_selftest(ctx, tr):
    """Corrupt one logged result in a copy of a recorded trace: TLC must reject it."""
    lines = open(tr).read().splitlines()[:200]
    done = None
    for i, ln_ in enumerate(lines):
        e = json.loads(ln_)
        if e.get("e") == "Put" and e.get("ok"):
            e["ok"] = False
            lines[i] = json.dumps(e)
            done = "Put.ok flipped at line %d" % (i + 1)
            break
    if not done:
        return
    cp = os.path.join(ctx.wd, "corrupt.ndjson")
    open(cp, "w").write("\n".join(lines) + "\n")
    saved = (ctx.events, ctx.traces, ctx.states, ctx.transitions)
    bad = ctx.validate("Trace_NitroMVCC.tla", "Trace_NitroMVCC.cfg", cp, "binding self-test (corrupted field)", 0)
    ctx.events, ctx.traces, ctx.states, ctx.transitions = saved
    if bad is None:
        raise Infra("binding self-test failed: corrupted trace was accepted")
    ctx.extra["binding_selftest"] = "%s -> rejected: %s" % (done, bad["msg"])


ASSUME = ["public calls are issued from one goroutine; collection workers are held at the verif gate and stepped explicitly "
          "(GCUnlink events), so every recorded trace is totally ordered",
          "items are 'k%04d' keys (whole-item comparator) or KVToBytes(key, 'v%d') with CompareKV; <= 20 keys (<= 300 in the visitor profile), <= 56 snapshots per history",
          "retention reading for C06: garbage of epoch d may stay linked until snapshot d itself has been closed and collected (the implementation's documented order); completeness is demanded once no released list is pending",
          "the concrete model state (physical chain, counters) is compared as binding evidence (MODEL-DRIFT), never as a verdict"]


def replay(ctx):
    return vlib.replay_dir(ctx, "Trace_NitroMVCC.tla", "Trace_NitroMVCC.cfg", reset)


def run_family(ctx, m1, graph_inst, walks_quick, randoms, variants=((False, False), (True, False), (False, True), (True, True))):
    """m1: list of (name, cfgtext) model-checked without dump; graph_inst: (name, cfgtext, nwriters) model-checked with a
    dump whose transitions are replayed on the real code; randoms: list of (what, n, len, profile, keys)."""
    if ctx.replay:
        return replay(ctx)
    rng = random.Random(vlib.seed())
    for (name, cfg) in m1:
        r, _ = model_check(ctx, name, cfg, dump=False)
        if not r.ok:
            # The model is a transcription of the code: a model-level counterexample is turned into a script and
            # judged on the real code; by itself it is not a verdict.
            labels = [a.split(" line ")[0] for (a, _) in r.trace[1:]]
            sc = [{"cfg": {"kv": kv, "mm": mm, "writers": 2, "hold": True}, "ops": [opname(graph.parse_label(x)) for x in labels]}
                  for (kv, mm) in variants]
            tr, info = run_scripts(ctx, sc, "m1cex_" + name)
            if judge(ctx, tr, info, "model counterexample of %s (%s) replayed on the real code" % (name, r.violated)):
                raise Infra("model instance %s violates %s but the real code does not reproduce it: the model is wrong" % (name, r.violated))
    if graph_inst and not isinstance(graph_inst, list):
        graph_inst = [graph_inst]
    for (name, cfg, nw) in (graph_inst or []):
        if ctx.violations:
            break
        r, dot = model_check(ctx, name, cfg, dump=True)
        if not r.ok:
            raise Infra("graph instance %s violates %s" % (name, r.violated))
        scripts, covered, total = scripts_from_graph(ctx, dot, rng, None if ctx.thorough else walks_quick, nw, variants)
        os.remove(dot)
        ctx.extra.setdefault("graph_instances", []).append(
            {"instance": name, "graph_edges": total, "edges_replayed_on_impl": covered, "scripts": len(scripts)})
        if ctx.thorough:
            ctx.exhaustive = False
        if scripts:
            ctx.add_sample({"kind": "TLC-derived script (M3)", "cfg": scripts[0]["cfg"], "ops": scripts[0]["ops"][:16]})
        # run in chunks so that a single TLC validation stays small
        chunk = 4000
        for c in range(0, len(scripts), chunk):
            tr, info = run_scripts(ctx, scripts[c:c + chunk], "m3_%s_%d" % (name, c // chunk))
            judge(ctx, tr, info, "edge-cover scripts of %s [%d..%d)" % (name, c, c + chunk))
            os.remove(tr)
            if ctx.violations:
                break
    first_tr = None
    for j, (what, n, ln, profile, keys) in enumerate(randoms):
        if ctx.violations and not ctx.thorough:
            break
        # several moderate traces instead of one huge one
        per = 150
        done = 0
        part = 0
        while done < n:
            m = min(per, n - done)
            tr, info = run_random(ctx, "m2_%d_%d" % (j, part), m, ln, profile, keys, seed_off=j * 100 + part)
            judge(ctx, tr, info, "%s (seeded random histories, part %d)" % (what, part))
            if first_tr is None:
                first_tr = tr
            else:
                os.remove(tr)
            done += m
            part += 1
            if ctx.violations:
                break
    if first_tr and not ctx.violations:
        binding_selftest(ctx, first_tr)
    ctx.assumptions += ASSUME
    return None
