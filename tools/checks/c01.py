"""C01 -- snapshot isolation: an open snapshot is an immutable point-in-time view."""
from checks import mvcc


def run(ctx):
    T = ctx.thorough
    ctx.rule = ("M1: TLC exhausts NitroMVCC (invariant C01_SnapshotImmutable: for every open snapshot the visible physical sequence equals "
                "the view taken at creation and Count() its length) over all histories of the GC family (2 keys, 2 writers, 3 snapshots, "
                "out-of-order Open/Close, GC lists unlinked in any order) and the iterator family (refresh at every position); "
                "M3: transitions of the dumped graphs replayed on the real store; M2: seeded random histories in which EVERY open snapshot "
                "is re-scanned (refresh rates 0..5) and Count() re-read after EVERY event, with released GC lists held and unlinked at "
                "arbitrary later points; TLC validates each scan against the view")
    gcinv = [i for i in mvcc.MC_INVS["gc"] if i != "C10_VisitPartition"]
    m1 = [("c01_gc", mvcc.mc_cfg([1, 2], [1], ["w1", "w2"], 3, 1, [], [], 0, gcinv)),
          ("c01_iter", mvcc.mc_cfg([1, 2], [1], ["w1"], 2, 1, [0, 1, 2], [1], 0, mvcc.MC_INVS["iter"]))]
    if T:
        m1.append(("c01_gc_ref2", mvcc.mc_cfg([1, 2], [1], ["w1", "w2"], 3, 2, [], [], 0, gcinv)))
        m1.append(("c01_iter_3k", mvcc.mc_cfg([1, 2, 3], [1], ["w1"], 2, 1, [0, 1], [1], 0, mvcc.MC_INVS["iter"])))
    g = [("c01_graph", mvcc.mc_cfg([1, 2], [1], ["w1"], 3, 1, [], [], 0, gcinv), 1)]
    if T:
        g.append(("c01_graph_2w", mvcc.mc_cfg([1, 2], [1], ["w1", "w2"], 2, 2, [], [], 0, gcinv), 2))
    randoms = [("C01 histories with per-event re-scan of every open snapshot", 3000 if T else 300, 150 if T else 120, "snap", 8)]
    return mvcc.run_family(ctx, m1, g, 400, randoms)
