"""C01 -- snapshot isolation: an open snapshot is an immutable point-in-time view."""
from checks import mvcc


def run(ctx):
    if ctx.replay:
        import json, os
        from checks import skiplist as slc
        mf = os.path.join(ctx.replay, "meta.json")
        if os.path.exists(mf) and json.load(open(mf)).get("trace_spec") == "SetLin.tla":
            slc.setlin(ctx, os.path.join(ctx.replay, "failing-trace.ndjson"), "replay", 1)
            from checks import writers
            writers.fix_msg(ctx, None)
            return ctx.finish()
        return mvcc.replay(ctx)
    T = ctx.thorough
    ctx.rule = ("M1: TLC exhausts NitroMVCC (invariant C01_SnapshotImmutable: for every open snapshot the visible physical sequence equals "
                "the view taken at creation and Count() its length) over all histories of the GC family (2 keys, 2 writers, 3 snapshots, "
                "out-of-order Open/Close, GC lists unlinked in any order) and the iterator family (refresh at every position); "
                "M3: transitions of the dumped graphs replayed on the real store; M2: seeded random histories in which EVERY open snapshot "
                "is re-scanned (refresh rates 0..5) and Count() re-read after EVERY event, with released GC lists held and unlinked at "
                "arbitrary later points; TLC validates each scan against the view; plus free-running churn runs: Visitor / refreshing iterators / "
                "backup+restore loop over a pinned snapshot while two writers insert and delete neighbouring keys in the current epoch, every "
                "pass compared with the view by TLC (SetLin.tla)")
    gcinv = [i for i in mvcc.MC_INVS["gc"] if i != "C10_VisitPartition"]
    m1 = [("c01_gc", mvcc.mc_cfg([1, 2], [1], ["w1", "w2"], 3, 1, [], [], 0, gcinv)),
          ("c01_iter", mvcc.mc_cfg([1, 2], [1], ["w1"], 2, 1, [0, 1, 2], [1], 0, mvcc.MC_INVS["iter"]))]
    if T:
        m1.append(("c01_gc_ref2", mvcc.mc_cfg([1, 2], [1], ["w1", "w2"], 3, 2, [], [], 0, gcinv)))
        m1.append(("c01_iter_3k", mvcc.mc_cfg([1, 2, 3], [1], ["w1"], 2, 1, [0, 1], [1], 0, mvcc.MC_INVS["iter"])))
    g = [("c01_graph", mvcc.mc_cfg([1, 2], [1], ["w1"], 3, 1, [], [], 0, gcinv), 1)]
    if T:
        g.append(("c01_graph_2w", mvcc.mc_cfg([1, 2], [1], ["w1", "w2"], 2, 2, [], [], 0, gcinv), 2))
    randoms = [("C01 histories with per-event re-scan of every open snapshot", 3000 if T else 300, 150 if T else 120, "snap", 8)]
    mvcc.run_family(ctx, m1, g, 400, randoms)
    # free-running readers of a pinned snapshot against same-epoch churn (SetLin.tla: every pass equals the view)
    if not ctx.violations or T:
        import os
        import vlib
        from checks import writers
        n, secs = (20, 3) if T else (3, 2)
        tr, ns, crashes = writers.run_wr(ctx, "c01_churn", vlib.seed() * 10 + 5, n, mm=1, nomem=True,
                                         extra=["-churn", secs, "-backup", os.path.join(ctx.wd, "churnbk")])
        npass = sum(1 for l in open(tr) if '"e":"RScan"' in l or '"e":"Restore"' in l)
        ctx.extra["churn_reader_passes"] = npass
        if crashes:
            vlib.log("note: %d child crashes on freed memory (judged by C04's check)" % crashes)
        writers.judge_setlin(ctx, tr, "%d visitor / iterator / backup passes over a pinned snapshot against same-epoch churn" % npass, ns)
        writers.fix_msg(ctx, tr)
        ctx.traces += ns
        os.remove(tr)
    return ctx.finish()
