"""Shared driver for the nitro-level concurrency properties: C03 (linearizable writers), C04 (safe memory
reclamation), C07 (every block released exactly once by Close) and the contended part of C06.
Real code: `vh wr` runs writers / readers / snapshot churn / GC as free-running goroutines in a child process
(registry allocator with poison, or guard-page allocator); a crash of the child on freed memory is attributed
by address.  Verdicts: SetLin.tla (call/return + snapshot/physical walks), MemAPI.tla (allocator events)."""
import json, os, re, subprocess
import vlib
from vlib import Infra, log
from checks import skiplist as slc


def reset(e):
    return e.get("e") in ("WrInit", "MvInit")


def run_wr(ctx, what, seed, n, guard=False, mm=2, big=False, timeout=1500, nomem=False, extra=()):
    """Run `vh wr` in child processes; returns (trace path, scenarios run, crash events appended)."""
    exe = vlib.build_harness()
    tr = os.path.join(ctx.wd, "wr_%s.ndjson" % what)
    if os.path.exists(tr):
        os.remove(tr)
    skip = 0
    crashes = 0
    out_all = open(tr, "w")
    while skip < n:
        part = os.path.join(ctx.wd, "wr_part.ndjson")
        cmd = [exe, "wr", "-out", part, "-seed", str(seed), "-n", str(n), "-skip", str(skip), "-mm", str(mm)]
        if guard:
            cmd.append("-guard")
        if big:
            cmd.append("-big")
        if nomem:
            cmd.append("-nomem")
        cmd += [str(x) for x in extra]
        try:
            p = subprocess.run(cmd, stdout=subprocess.PIPE, stderr=subprocess.PIPE, text=True, timeout=timeout)
        except subprocess.TimeoutExpired:
            # a driver that no longer makes progress gives no verdict by itself; the scenarios it completed are still judged
            lines = open(part).read().splitlines() if os.path.exists(part) else []
            ends = [i for i, l in enumerate(lines) if '"WrEnd"' in l]
            if not ends:
                raise Infra("vh wr timed out before completing a scenario")
            log("note: vh wr made no progress for %ds; judging the %d scenarios it completed" % (timeout, len(ends)))
            ctx.extra.setdefault("driver_timeouts", []).append({"what": what, "completed_scenarios": len(ends)})
            out_all.write("\n".join(lines[:ends[-1] + 1]) + "\n")
            break
        lines = open(part).read().splitlines() if os.path.exists(part) else []
        if p.returncode == 0:
            out_all.write("\n".join(lines) + ("\n" if lines else ""))
            break
        # the child died: keep complete scenarios, attribute the crash to the scenario announced last
        begins = re.findall(r"^BEGIN (\d+)$", p.stderr, re.M)
        if not begins:
            raise Infra("vh wr died before the first scenario: " + p.stderr[-1500:])
        cur = int(begins[-1])
        # cut the partial scenario's events but keep its WrInit so that the Fault is attributed
        last_init = max([i for i, l in enumerate(lines) if '"WrInit"' in l] or [0])
        keep = lines[:last_init + 1]
        if not re.search(r"^(panic:|fatal error:|unexpected fault address)", p.stderr, re.M):
            raise Infra("vh wr died without a Go panic message (rc=%s): killed from outside? %s" % (p.returncode, p.stderr[-300:]))
        msg, kind = classify_crash(p.stderr)
        if kind == "infra":
            raise Infra("vh wr crashed for a reason unrelated to freed memory:\n" + p.stderr[-3000:])
        keep.append(json.dumps({"e": "Fault", "msg": msg, "scenario": cur}))
        out_all.write("\n".join(keep) + "\n")
        crashes += 1
        skip = cur + 1
        if crashes > 20:
            break
    out_all.close()
    return tr, n, crashes


def classify_crash(stderr):
    """Attribute a fatal fault of the child to freed memory (guard page arena, or the registry allocator's poison)."""
    m = re.search(r"addr=(0x[0-9a-f]+)", stderr)
    g = re.findall(r"GUARD base=(\d+) slot=(\d+) datapages=(\d+) page=(\d+) nslots=(\d+)", stderr)
    where = ""
    fr = re.findall(r"^(github\.com/couchbase/nitro[^\n]*)$", stderr, re.M)
    if fr:
        where = " in " + re.sub(r"\([^()]*\)$", "", fr[0].strip()).split("/")[-1]
    if m and g:
        addr = int(m.group(1), 16)
        base, slot, dp, page, ns = map(int, g[-1])
        if base <= addr < base + slot * ns:
            off = (addr - base) % slot
            blk = (addr - base) // slot + 1
            if off < dp * page:
                return "a block was read or written after it had been returned to the allocator (block %d, guard-page fault%s)" % (blk, where), "uaf"
            return "access past the end of an allocated block (block %d%s)" % (blk, where), "uaf"
    if "deaddeaddeaddead" in stderr or (m and "code=0x80" in stderr):
        return "freed (poisoned) memory was dereferenced%s" % where, "uaf"
    if re.search(r"out of memory|cannot allocate", stderr):
        return "out of memory", "infra"
    if "Unsafe memory reclamation detected" in stderr or "unable to insert barrier session" in stderr:
        return "the access barrier panicked: unsafe memory reclamation detected", "uaf"
    return "crash", "infra"


def judge_setlin(ctx, tr, what, n):
    ok = slc.setlin(ctx, tr, what, n)
    return ok


def fix_msg(ctx, tr):
    """Rename the generic SetLin message of the last violation according to the event it got stuck at."""
    if not ctx.violations:
        return
    v = ctx.violations[-1]
    m = re.search(r'\(\{"e": "(\w+)"', v["msg"])
    kind = m.group(1) if m else ""
    tag = {"Walk": "C03:the content / Count() of the snapshot taken after the concurrent phase equals no linearization of the recorded Put/Delete/lookup results",
           "RScan": "C01:a reader's scan (or Visitor pass) of an open snapshot, concurrent with writers and GC, differs from the snapshot's content",
           "Phys": "C06:after every snapshot was closed and a collection pass forced, the linked nodes / statistics differ from the live items (stranded or lost garbage)",
           "Ret": "C03:a Put/Delete/lookup result that no linearization of the concurrent history explains"}.get(kind)
    if tag:
        v["msg"] = tag + " " + v["msg"][v["msg"].rfind("["):]
    elif v["msg"].startswith("C13:"):
        v["msg"] = "C03:" + v["msg"][4:]


def judge_mem(ctx, tr, what, n):
    return vlib.judge_trace(ctx, "MemAPI.tla", "Trace_MemAPI.cfg", tr, what + " [allocator contract]", 0, reset)
