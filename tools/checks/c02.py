"""C02 -- Put/Delete/lookup implement a set keyed by the comparator (sequential semantics)."""
from checks import mvcc

NOC10 = [i for i in mvcc.MC_INVS["gc"] if i != "C10_VisitPartition"]


def run(ctx):
    T = ctx.thorough
    ctx.rule = ("M1: TLC exhausts NitroMVCC for all histories of Put/Delete/NewSnapshot/Open/Close/GCUnlink over 2 keys, 1-2 values, "
                "2 writers, 3 epochs (invariants C02_Results, C02_LiveMatches, C02_Counts and the rest of the family); "
                "M3: transitions of the 2-writer/2-value graph replayed on the real store in all four (comparator, memory mode) variants; "
                "M2: seeded random histories through 1-3 writers from one goroutine (Put/Delete/Delete2/DeleteNode/GetNode/NewSnapshot/Close); "
                "TLC validates every event: result, live set in the structure, Count()/ItemsCount and content of every new snapshot")
    m1 = [("c02_2w", mvcc.mc_cfg([1, 2], [1], ["w1", "w2"], 3, 1, [], [], 0, NOC10))]
    if T:
        m1.append(("c02_2w2v", mvcc.mc_cfg([1, 2], [1, 2], ["w1", "w2"], 3, 1, [], [], 0, NOC10)))
    g = [("c02_graph_2v", mvcc.mc_cfg([1, 2], [1, 2], ["w1"], 2, 1, [], [], 0, NOC10), 1)]
    if T:
        g.append(("c02_graph_2w", mvcc.mc_cfg([1, 2], [1], ["w1", "w2"], 2, 1, [], [], 0, NOC10), 2))
        g.append(("c02_graph_3sn", mvcc.mc_cfg([1, 2], [1], ["w1"], 3, 1, [], [], 0, NOC10), 1))
    randoms = [("C02 mixed histories", 3000 if T else 300, 150 if T else 120, "mixed", 8)]
    return mvcc.run_family(ctx, m1, g, 400, randoms)
