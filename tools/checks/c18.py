"""C18 -- bulk builder and merge iterator are lossless and order-preserving.
specs: Builder.tla, Merger.tla; binding: Trace_Builder.tla, Trace_Merger.tla."""
import json, os, random
import vlib, graph
from vlib import Infra, log


def reset(e):
    return e.get("e") in ("BInit", "MInit")


def mc(ctx, tla, cfgname, text, dump):
    vlib.stage_specs(ctx.wd, [])
    open(os.path.join(ctx.wd, cfgname), "w").write(text)
    extra = ["-dump", "dot,actionlabels", dump] if dump else []
    r = vlib.run_tlc(tla, cfgname, ctx.wd, extra=extra, timeout=1200)
    ctx.states += r.distinct
    ctx.transitions += r.generated
    ctx.mc_runs.append({"spec": tla, "cfg": cfgname, "distinct_states": r.distinct, "states_generated": r.generated,
                        "depth": r.depth, "wall_s": round(r.wall, 1), "result": r.violated or "no error"})
    log("[M1] %s/%s: %d distinct states, depth %d: %s" % (tla, cfgname, r.distinct, r.depth, r.violated or "all invariants hold"))
    if not r.ok:
        raise Infra("model %s violates %s (model error: the real code is judged by traces only)" % (tla, r.violated))
    return r


def run(ctx):
    if ctx.replay:
        first = open(os.path.join(ctx.replay, "failing-trace.ndjson")).readline()
        tla = "Trace_Merger.tla" if "MInit" in first else "Trace_Builder.tla"
        return vlib.replay_dir(ctx, tla, tla.replace(".tla", ".cfg"), reset)
    T = ctx.thorough
    rng = random.Random(vlib.seed())
    ctx.rule = ("M1: TLC exhausts Builder.tla (all distributions of <= 4-5 items over 3 segments incl. empty leading/middle/trailing ones, all "
                "level assignments 0..2; invariants C18_Assembled, C18_Stats) and Merger.tla (all contents of 2-3 lists over 3 values, all "
                "SeekFirst/Seek/Next sequences to depth 5-6 incl. re-seeks mid-scan; C18_MergeExact, C18_NoCrash); M3: every Add order of the "
                "builder graph and every transition of the merger graph are executed on the real builder / merge iterator; M2: random shapes "
                "(<= 6 segments, <= 44 items, concurrent filling, both memory modes) followed by Insert/Delete/Lookup/scan on the assembled "
                "list, and random merges of 1-4 lists with duplicates; TLC validates per-level chains, statistics, results and yields")
    # ---- builder
    mc(ctx, "Builder.tla", "MC_Builder_gen.cfg",
       "SPECIFICATION BSpec\nCONSTANTS\n  NSeg = 3\n  MaxItems = %d\n  MaxLvl = 2\nINVARIANT C18_Assembled\nINVARIANT C18_Stats\nCHECK_DEADLOCK FALSE\n"
       % (5 if T else 4), "bgraph")
    nodes, init, edges, nedges = graph.parse_dot(os.path.join(ctx.wd, "bgraph.dot"))
    os.remove(os.path.join(ctx.wd, "bgraph.dot"))
    scripts, covered, total = graph.edge_cover(init, edges, rng, None)
    orders = set()
    for (_, labels) in scripts:
        ops = [graph.parse_label(x) for x in labels]
        for cut in range(len(ops) + 1):
            pre = ops[:cut]
            if all(o[0] == "Add" for o in pre):
                orders.add(tuple(o[1] for o in pre))
    orders = sorted(orders)
    ctx.extra["builder_graph_edges"] = total
    ctx.extra["builder_add_orders_replayed"] = len(orders)
    sp = os.path.join(ctx.wd, "b_scripts.ndjson")
    reps = 6 if T else 2     # levels are random in the real builder: repeat every shape
    with open(sp, "w") as f:
        for rep in range(reps):
            for o in orders:
                segs = [sum(1 for x in o if x == s) for s in (1, 2, 3)]
                ops = [[rng.choice(["Insert", "Delete", "Lookup"]), rng.randrange(0, len(o) + 2)] for _ in range(4)]
                f.write(json.dumps({"segs": segs, "order": list(o), "mm": rep % 2 == 1, "ops": ops}) + "\n")
    tr = os.path.join(ctx.wd, "b_m3.ndjson")
    p = vlib.run_harness(["builder", "-out", tr, "-scripts", sp])
    info = json.loads(p.stdout.strip().splitlines()[-1])
    ctx.add_sample({"kind": "builder Add order from the TLC graph (M3)", "order": list(orders[len(orders) // 2])})
    vlib.judge_trace(ctx, "Trace_Builder.tla", "Trace_Builder.cfg", tr, "builder shapes from the state graph", info["scenarios"], reset)
    tr = os.path.join(ctx.wd, "b_m2.ndjson")
    p = vlib.run_harness(["builder", "-out", tr, "-seed", vlib.seed(), "-n", 1500 if T else 150])
    info = json.loads(p.stdout.strip().splitlines()[-1])
    with open(tr) as f:
        ctx.add_sample({"kind": "builder random shape (M2)", "first_events": [json.loads(next(f)) for _ in range(3)]})
    vlib.judge_trace(ctx, "Trace_Builder.tla", "Trace_Builder.cfg", tr, "builder random shapes + operations", info["scenarios"], reset, timeout=2400)
    # ---- merge iterator
    mc(ctx, "Merger.tla", "MC_Merger_gen.cfg",
       "SPECIFICATION MSpec\nCONSTANTS\n  NLists = %d\n  Vals = {1, 2, 3}\n  MaxOps = %d\n  FIXD8 = TRUE\nINVARIANT C18_MergeExact\nINVARIANT C18_NoCrash\nCHECK_DEADLOCK FALSE\n"
       % ((2, 6) if T else (2, 5)), "mgraph")
    if T:
        mc(ctx, "Merger.tla", "MC_Merger_3l.cfg",
           "SPECIFICATION MSpec\nCONSTANTS\n  NLists = 3\n  Vals = {1, 2}\n  MaxOps = 5\n  FIXD8 = TRUE\nINVARIANT C18_MergeExact\nINVARIANT C18_NoCrash\nCHECK_DEADLOCK FALSE\n", None)
    nodes, init, edges, nedges = graph.parse_dot(os.path.join(ctx.wd, "mgraph.dot"), next_is_action=True)  # Merger.tla has an action called Next
    os.remove(os.path.join(ctx.wd, "mgraph.dot"))
    scripts, covered, total = graph.edge_cover(init, edges, rng, None if T else 1500)
    ctx.extra["merger_graph_edges"] = total
    ctx.extra["merger_edges_replayed_on_impl"] = covered
    sp = os.path.join(ctx.wd, "m_scripts.ndjson")
    with open(sp, "w") as f:
        for (root, labels) in scripts:
            sv = graph.state_vars(nodes[root], {"lists"})
            f.write(json.dumps({"lists": sv["lists"], "ops": [graph.parse_label(x) for x in labels]}) + "\n")
    if scripts:
        ctx.add_sample({"kind": "merge script from the TLC graph (M3)", "lists": graph.state_vars(nodes[scripts[0][0]], {"lists"})["lists"],
                        "ops": scripts[0][1][:10]})
    tr = os.path.join(ctx.wd, "m_m3.ndjson")
    p = vlib.run_harness(["merge", "-out", tr, "-scripts", sp])
    info = json.loads(p.stdout.strip().splitlines()[-1])
    vlib.judge_trace(ctx, "Trace_Merger.tla", "Trace_Merger.cfg", tr, "merge-iterator edge-cover scripts", info["scenarios"], reset)
    tr = os.path.join(ctx.wd, "m_m2.ndjson")
    p = vlib.run_harness(["merge", "-out", tr, "-seed", vlib.seed(), "-n", 3000 if T else 300, "-len", 40])
    info = json.loads(p.stdout.strip().splitlines()[-1])
    vlib.judge_trace(ctx, "Trace_Merger.tla", "Trace_Merger.cfg", tr, "merge-iterator random scans with re-seeks", info["scenarios"], reset, timeout=2400)
    # ---- binding demonstration
    if not ctx.violations:
        lines = open(os.path.join(ctx.wd, "m_m3.ndjson")).read().splitlines()
        hit = None
        for i, ln_ in enumerate(lines):
            if '"valid"' not in ln_:
                continue
            e = json.loads(ln_)
            if e.get("valid") and e.get("item"):
                e["item"] += 1
                lines[i] = json.dumps(e)
                hit = i
                break
        if hit is None:
            raise Infra("binding self-test: no positioned merge-iterator event in the edge-cover trace (vacuous replay)")
        first_, sc = vlib.cut_scenario(os.path.join(ctx.wd, "m_m3.ndjson"), hit + 1, reset)
        sc[hit + 1 - first_] = lines[hit]
        cp = os.path.join(ctx.wd, "corrupt.ndjson")
        open(cp, "w").write("\n".join(sc) + "\n")
        saved = (ctx.events, ctx.traces, ctx.states, ctx.transitions)
        bad = ctx.validate("Trace_Merger.tla", "Trace_Merger.cfg", cp, "binding self-test (corrupted field)", 0)
        ctx.events, ctx.traces, ctx.states, ctx.transitions = saved
        if bad is None:
            raise Infra("binding self-test failed: corrupted trace was accepted")
        ctx.extra["binding_selftest"] = "corrupted 'item' rejected: " + bad["msg"]
    ctx.assumptions += ["node levels chosen by Segment.Add are random and not controllable: they are observed (node callback + Node.Level()) and are the model's nondeterministic choice; all level assignments are covered by M1 only",
                        "items are ints with CompareInt; segments receive globally ascending items, as LoadFromDisk does",
                        "the heap model of Merger.tla is checked exhaustively (M1) and supplies operation scripts; recorded merges are judged at API grain (values only)"]
    return None
