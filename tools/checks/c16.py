"""C16 -- access barrier safety: destruction waits for earlier accessors, in order, once."""
from checks import barrier


def run(ctx):
    return barrier.run(ctx)
