"""C03 -- concurrent writers are linearizable with respect to the set semantics."""
import os
import vlib
from checks import writers, nwriters
from vlib import Infra, log


def run(ctx):
    if ctx.replay:
        from checks import skiplist as slc
        slc.setlin(ctx, os.path.join(ctx.replay, "failing-trace.ndjson"), "replay", 1)
        writers.fix_msg(ctx, None)
        return ctx.finish()
    T = ctx.thorough
    ctx.rule = ("M1: TLC exhausts NitroWriters.tla (writer paths at the grain of their atomic steps: lookup under a token, deadSn read, publish, "
                "mark / deadSn CAS, garbage-list append, session flush) for 2-3 writers on one contended key over two epochs: at most one winner "
                "per delete, results justified by the key's state during the call; M2: free-running goroutines, one Writer each (2-8), hammer "
                "1-8 shared keys with Put/Delete/Delete2/GetNode between quiescent NewSnapshots, readers scan and visit open snapshots meanwhile; "
                "start-gun scenarios make all writers run the same operation on the same key at the same instant (spin barrier); "
                "TLC (SetLin.tla) searches a linearization of every call/return history that also explains the next snapshot's content, Count(), "
                "ItemsCount, every concurrent reader scan, and the physical chain after everything was closed and collected")
    nwriters.model_check(ctx, T)
    nwriters.conformance(ctx, T, 31)
    for i, (n, big, mm) in enumerate([(400, False, 2), (60, True, 2)] if not T else [(3000, False, 2), (600, True, 2), (600, True, 0)]):
        tr, ns, crashes = writers.run_wr(ctx, "c03_%d" % i, vlib.seed() * 10 + i, n, mm=mm, big=big, nomem=True)
        if crashes:
            log("note: %d child crashes on freed memory (judged by C04's check)" % crashes)
        if i == 0:
            import json
            with open(tr) as f:
                evs = [json.loads(next(f)) for _ in range(12)]
            ctx.add_sample({"kind": "recorded concurrent history (first events)", "events": [e for e in evs if e["e"] != "M"][:8]})
        writers.judge_setlin(ctx, tr, "concurrent writers (%d scenarios%s)" % (n, ", large" if big else ""), ns)
        writers.fix_msg(ctx, tr)
        os.remove(tr)
        if ctx.violations and not T:
            break
    # start-gun scenarios: every writer runs the same operations on the same 1-2 keys, released together by a spin barrier
    if not ctx.violations or T:
        n = 3000 if T else 300
        tr, ns, crashes = writers.run_wr(ctx, "c03_gun", vlib.seed() * 10 + 8, n, mm=2, nomem=True, extra=["-gun"], timeout=600 if T else 240)
        writers.judge_setlin(ctx, tr, "start-gun scenarios: 2-4 writers attack the same key at the same instant (%d scenarios)" % n, ns)
        writers.fix_msg(ctx, tr)
        os.remove(tr)
    ctx.assumptions += ["NewSnapshot is only called while no writer call is in progress (the API's contract)",
                        "events are ordered by the logger's mutex: Call is logged before the call starts, Ret after it returned",
                        "values carry the id of the creating Put, so the surviving version of a key is identified exactly (CompareKV comparator)"]
    return None
