"""C14 -- see checks/skiplist.py."""
from checks import skiplist


def run(ctx):
    return skiplist.run(ctx, "C14")
