"""C09 -- iterator positioning is exact and independent of refresh."""
from checks import mvcc


def run(ctx):
    T = ctx.thorough
    ctx.rule = ("M1: TLC exhausts NitroMVCC with an iterator (Seek of every key, SeekFirst, Next, explicit Refresh at every position, "
                "refresh rates {0,1,2}) over all version histories of 2-3 keys and 2 snapshots: invariant C09_IterExact (the iterator always "
                "equals the abstract iterator over the snapshot's view); M3: every transition of the iterator graph replayed on the real "
                "iterator; M2: random histories with invisible older/newer versions physically present (old snapshots pinned, GC lists held), "
                "two iterators with rates {0,1,2,3,5,7}, seeks to present/absent/below-min/above-max keys; (Valid, Get) of every open iterator "
                "is recorded after every event and judged by TLC")
    m1 = [("c09_iter", mvcc.mc_cfg([1, 2], [1], ["w1"], 2, 1, [0, 1, 2], [1], 0, mvcc.MC_INVS["iter"]))]
    if T:
        m1.append(("c09_iter_3k", mvcc.mc_cfg([1, 2, 3], [1], ["w1"], 2, 1, [0, 1], [1], 0, mvcc.MC_INVS["iter"])))
        m1.append(("c09_iter_3sn", mvcc.mc_cfg([1, 2], [1], ["w1"], 3, 1, [1], [1], 0, mvcc.MC_INVS["iter"])))
    g = [("c09_graph", mvcc.mc_cfg([1, 2], [1], ["w1"], 2, 1, [0, 1], [1], 0, mvcc.MC_INVS["iter"]), 1)]
    randoms = [("C09 iterator histories", 3000 if T else 300, 150 if T else 120, "iter", 8)]
    return mvcc.run_family(ctx, m1, g, 500, randoms)
