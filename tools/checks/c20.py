"""C20 -- node table and node list behave as their sequential models.
spec: NodeTable.tla, NodeList.tla; binding: Trace_NodeTable.tla, Trace_NodeList.tla."""
import json, os, random
import vlib, graph
from vlib import Infra, log


def reset(e):
    return e.get("e") in ("Init", "LInit")


def write_cfg(ctx, name, text):
    with open(os.path.join(ctx.wd, name), "w") as f:
        f.write(text)
    # stage_specs copies from SPEC; generated cfgs live only in the work dir
    return name


def mc_and_scripts(ctx, tla, cfgname, cfgtext, initvars, rng, max_scripts):
    vlib.stage_specs(ctx.wd, [])
    write_cfg(ctx, cfgname, cfgtext)
    dump = "graph_%s" % cfgname.replace(".cfg", "")
    r = vlib.run_tlc(tla, cfgname, ctx.wd, extra=["-dump", "dot,actionlabels", dump], timeout=900)
    ctx.states += r.distinct
    ctx.transitions += r.generated
    ctx.mc_runs.append({"spec": tla, "cfg": cfgname, "distinct_states": r.distinct, "states_generated": r.generated,
                        "depth": r.depth, "wall_s": round(r.wall, 1), "result": r.violated or "no error"})
    log("[M1] %s/%s: %d distinct states, depth %d, %s" % (tla, cfgname, r.distinct, r.depth, r.violated or "all invariants hold"))
    mc_cex = None
    if not r.ok:
        # model-level counterexample: becomes a script to be judged on the real code
        mc_cex = [a.split(" line ")[0] for (a, _) in r.trace[1:]]
        log("[M1] model counterexample (%s); will only count if the real code reproduces it" % r.violated)
    nodes, init, edges, nedges = graph.parse_dot(os.path.join(ctx.wd, dump + ".dot"))
    scripts, covered, total = graph.edge_cover(init, edges, rng, max_scripts)
    out = []
    for (root, labels) in scripts:
        sv = graph.state_vars(nodes[root], initvars)
        out.append((sv, [graph.parse_label(x) for x in labels]))
    return out, covered, total, r


def run(ctx):
    if ctx.replay:
        tla = "Trace_NodeList.tla" if "LInit" in open(os.path.join(ctx.replay, "failing-trace.ndjson")).readline() else "Trace_NodeTable.tla"
        return vlib.replay_dir(ctx, tla, tla.replace(".tla", ".cfg"), reset)
    rng = random.Random(vlib.seed())
    T = ctx.thorough
    ctx.rule = ("M1: TLC exhausts NodeTable (all hash functions Keys->Buckets, all Update/Remove sequences up to MaxOps) and NodeList; "
                "M3: a greedy edge cover of the dumped state graph is executed on the real nodetable.NodeTable / nitro.NodeList "
                "(one implementation step per model transition); M2: seeded random sequences with constant / 2-bucket / 3-bucket / crc32 "
                "hash functions; every recorded trace is validated by TLC against Trace_NodeTable / Trace_NodeList: results and Get of "
                "every key after every step must equal the abstract map")
    # ---- NodeTable: M1 + M3
    cfg = """SPECIFICATION Spec
CONSTANTS
  Keys = {%s}
  Buckets = {1, 2}
  Gens = {1, 2}
  MaxOps = %d
INVARIANT Refines
INVARIANT Shape
CHECK_DEADLOCK FALSE
""" % (("1, 2, 3, 4", 6) if T else ("1, 2, 3", 5))
    scripts, covered, total, r = mc_and_scripts(ctx, "NodeTable.tla", "MC_NodeTable_gen.cfg", cfg, {"hash"}, rng,
                                                None if T else 1500)
    sp = os.path.join(ctx.wd, "nt_scripts.ndjson")
    with open(sp, "w") as f:
        for sv, ops in scripts:
            f.write(json.dumps({"hash": sv["hash"], "ops": ops}) + "\n")
    ctx.extra["nodetable_graph_edges"] = total
    ctx.extra["nodetable_edges_replayed_on_impl"] = covered
    ctx.exhaustive = False
    tr = os.path.join(ctx.wd, "nt_m3.ndjson")
    p = vlib.run_harness(["nt", "-out", tr, "-scripts", sp])
    info = json.loads(p.stdout.strip().splitlines()[-1])
    if scripts:
        ctx.add_sample({"kind": "TLC-derived script (M3)", "hash": scripts[0][0]["hash"], "ops": scripts[0][1][:12]})
    vlib.judge_trace(ctx, "Trace_NodeTable.tla", "Trace_NodeTable.cfg", tr, "nodetable edge-cover scripts", info["scenarios"], reset)
    # ---- NodeTable: M2 random
    tr = os.path.join(ctx.wd, "nt_m2.ndjson")
    n, ln = (3000, 150) if T else (300, 100)
    p = vlib.run_harness(["nt", "-out", tr, "-seed", vlib.seed(), "-n", n, "-len", ln])
    info = json.loads(p.stdout.strip().splitlines()[-1])
    with open(tr) as f:
        ctx.add_sample({"kind": "random trace (M2), first events", "events": [json.loads(next(f)) for _ in range(4)]})
    vlib.judge_trace(ctx, "Trace_NodeTable.tla", "Trace_NodeTable.cfg", tr, "nodetable random sequences", info["scenarios"], reset,
                     timeout=1800)
    # ---- NodeList: M1 + M3 + M2
    cfg = """SPECIFICATION LSpec
CONSTANTS
  LKeys = {1, 2}
  Copies = {1, 2%s}
  MaxOps = %d
INVARIANT NoDupNodes
CHECK_DEADLOCK FALSE
""" % ((", 3", 7) if T else ("", 6))
    scripts, covered, total, r = mc_and_scripts(ctx, "NodeList.tla", "MC_NodeList_gen.cfg", cfg, set(), rng, None if T else 800)
    sp = os.path.join(ctx.wd, "nl_scripts.ndjson")
    with open(sp, "w") as f:
        for sv, ops in scripts:
            f.write(json.dumps({"ops": ops}) + "\n")
    ctx.extra["nodelist_graph_edges"] = total
    ctx.extra["nodelist_edges_replayed_on_impl"] = covered
    tr = os.path.join(ctx.wd, "nl_m3.ndjson")
    p = vlib.run_harness(["nl", "-out", tr, "-scripts", sp])
    info = json.loads(p.stdout.strip().splitlines()[-1])
    if scripts:
        ctx.add_sample({"kind": "TLC-derived NodeList script (M3)", "ops": scripts[0][1][:12]})
    vlib.judge_trace(ctx, "Trace_NodeList.tla", "Trace_NodeList.cfg", tr, "nodelist edge-cover scripts", info["scenarios"], reset)
    tr = os.path.join(ctx.wd, "nl_m2.ndjson")
    p = vlib.run_harness(["nl", "-out", tr, "-seed", vlib.seed(), "-n", 2000 if T else 200, "-len", 40])
    info = json.loads(p.stdout.strip().splitlines()[-1])
    vlib.judge_trace(ctx, "Trace_NodeList.tla", "Trace_NodeList.cfg", tr, "nodelist random sequences", info["scenarios"], reset)
    # ---- binding demonstration: a corrupted observation must be rejected
    if not ctx.violations:
        src = os.path.join(ctx.wd, "nt_m3.ndjson")
        lines = open(src).read().splitlines()[:40]
        for i, ln_ in enumerate(lines):
            e = json.loads(ln_)
            if e.get("e") == "Update" and e["updated"]:
                e["updated"] = False
                lines[i] = json.dumps(e)
                break
        else:
            e = json.loads(lines[1]); e["count"] += 1; lines[1] = json.dumps(e)
        cp = os.path.join(ctx.wd, "corrupt.ndjson")
        open(cp, "w").write("\n".join(lines) + "\n")
        ev0, tr0, st0, tt0 = ctx.events, ctx.traces, ctx.states, ctx.transitions
        bad = ctx.validate("Trace_NodeTable.tla", "Trace_NodeTable.cfg", cp, "binding self-test (corrupted field)", 0)
        ctx.events, ctx.traces, ctx.states, ctx.transitions = ev0, tr0, st0, tt0
        if bad is None:
            raise Infra("binding self-test failed: corrupted trace was accepted")
        ctx.extra["binding_selftest"] = "corrupted 'updated' field rejected: " + bad["msg"]
    ctx.assumptions += ["pointer identity is modelled as <<key, generation>>; the harness keeps every object reachable",
                        "hash functions are tables over <= 8 key ids (constant, 2, 3 buckets, crc32 of the key bytes)",
                        "Stats() counters and MemoryInUse are compared with the concrete model as binding evidence (MODEL-DRIFT), not as a verdict"]
    return None
