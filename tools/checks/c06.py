"""C06 -- garbage collection is precise and complete (sequential/gated part; contended deletes are in C03/C04 drivers)."""
from checks import mvcc


def run(ctx):
    T = ctx.thorough
    ctx.rule = ("M1: TLC exhausts NitroMVCC with invariants C06_Retained (a version visible to an open snapshot stays linked), "
                "C06_NoEarlyUnlink, C06_CollectorProgress (lastGCSn = last snapshot up to which all are closed) and C06_Precise (once no "
                "released list is pending, no version with deadSn <= lastGCSn is linked) over all close orders with 2 collection workers; "
                "M3: graph transitions replayed on the real store; M2: random histories with several writers, snapshots closed in random order, "
                "held GC lists; after every event the physical level-0 chain (key,value,bornSn,deadSn,mark), node count, soft deletes, "
                "MemoryInUse, GetLastGCSn and GetSnapshots are recorded and judged by TLC")
    gcinv = [i for i in mvcc.MC_INVS["gc"] if i != "C10_VisitPartition"]
    m1 = [("c06_2w", mvcc.mc_cfg([1, 2], [1], ["w1", "w2"], 3, 1, [], [], 0, gcinv))]
    if T:
        m1.append(("c06_2w_ref2", mvcc.mc_cfg([1, 2], [1], ["w1", "w2"], 3, 2, [], [], 0, gcinv)))
        m1.append(("c06_1k_4sn", mvcc.mc_cfg([1], [1], ["w1", "w2"], 4, 1, [], [], 0, gcinv)))
    g = [("c06_graph", mvcc.mc_cfg([1, 2], [1], ["w1"], 3, 1, [], [], 0, gcinv), 1)]
    if T:
        g.append(("c06_graph_1k4sn", mvcc.mc_cfg([1], [1], ["w1", "w2"], 4, 1, [], [], 0, gcinv), 2))
    randoms = [("C06 histories with held garbage lists and random close order", 3000 if T else 300, 150 if T else 120, "gc", 6)]
    return mvcc.run_family(ctx, m1, g, 400, randoms)
