"""C06 -- garbage collection is precise and complete (sequential/gated part; contended deletes are in C03/C04 drivers)."""
import json, os
import vlib
from checks import mvcc
from vlib import Infra, log


def backlog(ctx, nsnap, writers, seed_off=0):
    """Scale: a pinned old snapshot while hundreds of newer snapshots (each with a little garbage) are created and closed,
    then the old one is closed: one collection pass must hand over the whole backlog (more lists than the workers'
    queue holds) and everything must be collected."""
    import random
    rng = random.Random(vlib.seed() + seed_off)
    ops = [["Put", 1, k, 1] for k in range(1, 9)] + [["NewSnapshot"]]
    for i in range(nsnap):
        k = 1 + i % 8
        w = 1 + rng.randrange(writers)
        ops += [["Delete", w, k], ["Put", w, k, 1 + i % 3], ["NewSnapshot"], ["CloseSnap", i + 2]]
    ops += [["CloseSnap", 1], ["GC"]]
    scripts = [{"cfg": {"kv": kv, "mm": True, "writers": writers, "hold": False}, "noscan": True, "ops": ops} for kv in (True, False)]
    tr, info = mvcc.run_scripts(ctx, scripts, "backlog")
    if [f for f in info.get("failed") or [] if "HANG" not in f]:
        raise Infra("backlog scenario: harness reported %s" % info["failed"][:2])
    cfg = open(os.path.join(vlib.SPEC, "Trace_NitroMVCC.cfg")).read().replace("MaxSn = 64", "MaxSn = %d" % (nsnap + 8))
    open(os.path.join(ctx.wd, "Trace_NitroMVCC_big.cfg"), "w").write(cfg)
    vlib.stage_specs(ctx.wd, [])
    ok = vlib.judge_trace(ctx, "Trace_NitroMVCC.tla", "Trace_NitroMVCC_big.cfg", tr,
                          "backlog of %d closed snapshots behind a pinned one (%d writers)" % (nsnap, writers), len(scripts), mvcc.reset, timeout=2400)
    os.remove(tr)
    return ok


def run(ctx):
    T = ctx.thorough
    ctx.rule = ("M1: TLC exhausts NitroMVCC with invariants C06_Retained (a version visible to an open snapshot stays linked), "
                "C06_NoEarlyUnlink, C06_CollectorProgress (lastGCSn = last snapshot up to which all are closed) and C06_Precise (once no "
                "released list is pending, no version with deadSn <= lastGCSn is linked) over all close orders with 2 collection workers; "
                "M3: graph transitions replayed on the real store; M2: random histories with several writers, snapshots closed in random order, "
                "held GC lists; after every event the physical level-0 chain (key,value,bornSn,deadSn,mark), node count, soft deletes, "
                "MemoryInUse, GetLastGCSn and GetSnapshots are recorded and judged by TLC; scale: 300 (thorough 600) snapshots created and closed "
                "behind a pinned one, then released in one collection pass")
    gcinv = [i for i in mvcc.MC_INVS["gc"] if i != "C10_VisitPartition"]
    m1 = [("c06_2w", mvcc.mc_cfg([1, 2], [1], ["w1", "w2"], 3, 1, [], [], 0, gcinv))]
    if T:
        m1.append(("c06_2w_ref2", mvcc.mc_cfg([1, 2], [1], ["w1", "w2"], 3, 2, [], [], 0, gcinv)))
        m1.append(("c06_1k_4sn", mvcc.mc_cfg([1], [1], ["w1", "w2"], 4, 1, [], [], 0, gcinv)))
    g = [("c06_graph", mvcc.mc_cfg([1, 2], [1], ["w1"], 3, 1, [], [], 0, gcinv), 1)]
    if T:
        g.append(("c06_graph_1k4sn", mvcc.mc_cfg([1], [1], ["w1", "w2"], 4, 1, [], [], 0, gcinv), 2))
    randoms = [("C06 histories with held garbage lists and random close order", 3000 if T else 300, 150 if T else 120, "gc", 6)]
    mvcc.run_family(ctx, m1, g, 400, randoms)
    if not ctx.violations or T:
        backlog(ctx, 300, 1)
        if T:
            backlog(ctx, 600, 2, 1)
    return ctx.finish()
