"""Shared driver for the skiplist-package properties C13 (linearizable ordered set), C14 (structure and
statistics at quiescence) and the structural half of C04 (no marked node linked at quiescence).
Model: Skiplist.tla (one action per shared-memory access).  Verdicts: SetLin.tla (call/return log),
SlQuiesce.tla (walk at quiescence), Trace_Skiplist.tla (step conformance + the model's own invariants
evaluated on the real execution)."""
import json, os, random, re
import vlib
from vlib import Infra, log


def reset(e):
    return e.get("e") in ("SlInit", "WrInit")


def cfg_text(procs, keys, maxops, maxnodes, top, fix=True, inflight=False,
             invs=("NoDupKeys", "DeleteOnce", "QStruct", "NoMarkedLinked"), iters=()):
    return ("SPECIFICATION Spec\nCONSTANTS\n  Procs = {%s}\n  IterProcs = {%s}\n  Keys = {%s}\n  MaxOps = %d\n  MaxNodes = %d\n  Top = %d\n  FIXK1 = %s\n  InFlightDelN = %s\n" %
            (", ".join(list(procs) + list(iters)), ", ".join(iters), ", ".join(map(str, keys)), maxops, maxnodes, top, "TRUE" if fix else "FALSE", "TRUE" if inflight else "FALSE") +
            "".join("INVARIANT %s\n" % i for i in invs) + "CHECK_DEADLOCK FALSE\n")


def trace_cfg(top, fix=True):
    return ("SPECIFICATION TSpec\nCONSTANTS\n  Procs = {\"p1\", \"p2\", \"p3\", \"p4\", \"p5\", \"p6\", \"it1\", \"it2\"}\n  IterProcs = {\"it1\", \"it2\"}\n  Keys = {}\n  MaxOps = 1000000\n  MaxNodes = 60\n"
            "  Top = %d\n  InFlightDelN = TRUE\n  FIXK1 = %s\nINVARIANT NoDrift\nINVARIANT NoDupKeys\nINVARIANT DeleteOnce\nINVARIANT QStruct\nINVARIANT NoMarkedLinked\n"
            "INVARIANT IterNoBackwards\nINVARIANT IterOnlyPresent\nINVARIANT IterSeekLands\nINVARIANT IterComplete\nCHECK_DEADLOCK TRUE\n"
            % (top, "TRUE" if fix else "FALSE"))


def mc(ctx, name, text, timeout=1800):
    vlib.stage_specs(ctx.wd, [])
    open(os.path.join(ctx.wd, name), "w").write(text)
    r = vlib.run_tlc("Skiplist.tla", name, ctx.wd, timeout=timeout)
    ctx.states += r.distinct
    ctx.transitions += r.generated
    ctx.mc_runs.append({"spec": "Skiplist.tla", "cfg": name, "constants": text.split("CONSTANTS")[1].split("INVARIANT")[0].split(),
                        "distinct_states": r.distinct, "states_generated": r.generated, "depth": r.depth,
                        "wall_s": round(r.wall, 1), "result": r.violated or "no error"})
    log("[M1] Skiplist/%s: %d distinct states, depth %d, %.0fs: %s" % (name, r.distinct, r.depth, r.wall, r.violated or "all invariants hold"))
    return r


def to_script(labels, top, seed, mm=False):
    procs, sched = {}, []
    for lb in labels:
        m = re.match(r"^(\w+)\(([^)]*)\)$", lb)
        if not m:
            continue
        act, args = m.group(1), [a.strip() for a in m.group(2).split(",")]
        p = args[0]
        sched.append(p)
        procs.setdefault(p, [])
        if act == "Insert":
            procs[p].append(["ins", int(args[1]), int(args[2])])
        elif act == "Delete":
            procs[p].append(["del", int(args[1])])
        elif act == "Lookup":
            procs[p].append(["look", int(args[1])])
        elif act == "DeleteNode":
            procs[p].append(["deln", int(args[1])])
    return {"top": top, "mm": mm, "procs": procs, "sched": sched, "seed": seed}


def run_scripts(ctx, scripts, what):
    sp = os.path.join(ctx.wd, "sl_scripts_%s.ndjson" % what)
    with open(sp, "w") as f:
        for s in scripts:
            f.write(json.dumps(s) + "\n")
    tr = os.path.join(ctx.wd, "sl_%s.ndjson" % what)
    p = vlib.run_harness(["sl", "-out", tr, "-scripts", sp], timeout=1800)
    return tr, json.loads(p.stdout.strip().splitlines()[-1])


def setlin(ctx, tr, what, ntraces, record=True):
    """Linearizability verdict: accepted iff TLC can reach the end of the log (invariant NotAccepted violated)."""
    vlib.stage_specs(ctx.wd, ["Trace_SetLin.cfg"])
    dst = os.path.join(ctx.wd, "trace.ndjson")
    if os.path.abspath(tr) != dst:
        import shutil
        shutil.copy(tr, dst)
    r = vlib.run_tlc("SetLin.tla", "Trace_SetLin.cfg", ctx.wd, workers=1, timeout=2400)  # BFS: the depth-first queue (StateDeque) lost states here
    nev = sum(1 for _ in open(dst))
    ctx.events += nev
    ctx.states += r.distinct
    ctx.transitions += r.generated
    if r.kind == "invariant" and r.violated == "NotAccepted":
        ctx.traces += ntraces
        log("[M2] %s [linearizability]: %d histories / %d events: a linearization exists for every history (SetLin.tla, %d states)" % (what, ntraces, nev, r.distinct))
        return True
    if r.kind is None:
        hw = re.findall(r'<<\s*"HIGHWATER",\s*(\d+)\s*>>', r.out)
        line = int(hw[-1]) if hw else 0
        if not record:
            return False
        first, sc = vlib.cut_scenario(tr, line, reset)
        p = os.path.join(ctx.wd, "failing-trace.ndjson")
        open(p, "w").write("\n".join(sc) + "\n")
        ev = json.loads(open(tr).read().splitlines()[line - 1]) if line else {}
        if ev.get("e") == "Panic":
            ctx.violation("%s:the code under test panicked on a legal call sequence: %s (%s) [%s]" % (ctx.pid, ev.get("msg"), ev.get("where"), what),
                          files=[p], meta={"trace_spec": "SetLin.tla", "cfg": "Trace_SetLin.cfg", "driver": what})
            return False
        ctx.violation("C13:no linearization of the recorded history explains event %d of the failing scenario (%s) [%s]" %
                      (line - first + 1, json.dumps({k: ev.get(k) for k in ("e", "p", "ok", "items") if k in ev}), what),
                      files=[p], meta={"trace_spec": "SetLin.tla", "cfg": "Trace_SetLin.cfg", "driver": what})
        return False
    raise Infra("SetLin validation ended unexpectedly: %s %s\n%s" % (r.kind, r.violated, r.out[-1500:]))


def validate(ctx, tr, info, what, top, fine=True, fix=True, lin=True):
    if info.get("failed"):
        raise Infra("%s: gate reported %s" % (what, info["failed"][:2]))
    ok1 = setlin(ctx, tr, what, info["scenarios"]) if lin else True
    ok2 = vlib.judge_trace(ctx, "SlQuiesce.tla", "Trace_SlQuiesce.cfg", tr, what + " [walk at quiescence]", 0, reset)
    ok3 = True
    if fine:
        name = "Trace_Skiplist_top%d.cfg" % top
        open(os.path.join(ctx.wd, name), "w").write(trace_cfg(top, fix))
        saved = ctx.traces
        bad = ctx.validate("Trace_Skiplist.tla", name, tr, what + " [step conformance + model invariants]", 0, timeout=2400)
        ctx.traces = saved
        if bad is None:
            ctx.extra["step_conformance_events"] = ctx.extra.get("step_conformance_events", 0) + info["events"]
        elif bad["kind"] == "reject" or bad.get("inv") == "NoDrift":
            log("MODEL-DRIFT (%s): the fine-grain log is not a behaviour of Skiplist.tla at line %s: %s" % (what, bad.get("line"), bad.get("msg")))
            ctx.extra.setdefault("model_drift", []).append({"what": what, "line": bad.get("line"), "msg": bad.get("msg")})
        else:
            # an invariant / Assert of Skiplist.tla failed on a state that matched the real structure step by step
            first, sc = vlib.cut_scenario(tr, max(1, bad.get("line", 1)), reset)
            p = os.path.join(ctx.wd, "failing-trace.ndjson")
            open(p, "w").write("\n".join(sc) + "\n")
            tag = {"QStruct": "C14", "NoMarkedLinked": "C04", "NoDupKeys": "C13", "DeleteOnce": "C13", "IterNoBackwards": "C15",
                   "IterOnlyPresent": "C15", "IterSeekLands": "C15", "IterComplete": "C15"}.get(bad.get("inv"), "C13")
            ctx.violation("%s:%s evaluated on the real execution (model state = real structure at every step) [%s]" % (tag, bad["msg"], what),
                          files=[p], meta={"trace_spec": "Trace_Skiplist.tla", "cfg": name, "driver": what})
            ok3 = False
    return ok1 and ok2 and ok3


def run(ctx, focus):
    if ctx.replay:
        first = open(os.path.join(ctx.replay, "meta.json")).read()
        if "SetLin" in first:
            tr = os.path.join(ctx.replay, "failing-trace.ndjson")
            setlin(ctx, tr, "replay", 1)
            return ctx.finish()
        return vlib.replay_dir(ctx, "SlQuiesce.tla", "Trace_SlQuiesce.cfg", reset)
    T = ctx.thorough
    rng = random.Random(vlib.seed())
    ctx.rule = ("M1: TLC exhausts Skiplist.tla (one action per getNext/dcasNext of findPath, Insert4, softDelete, deleteNode) for 2 processes x 2 "
                "operations (Insert with every height, Delete, Lookup, DeleteNode) over 2 keys / 3 nodes / 2 levels: NoDupKeys, DeleteOnce, interval "
                "justification of failed operations (Asserts), QStruct and NoMarkedLinked at quiescence; M3: TLC-simulated behaviours and model "
                "counterexamples become gate schedules on the real skiplist (goroutines parked at the verif yield points, one released at a time); "
                "M2: seeded random gate schedules (up to 6 goroutines, 3 levels, both memory modes) and free-running goroutines; verdicts: SetLin.tla "
                "searches a linearization of every call/return history, SlQuiesce.tla judges the per-level walk and statistics at quiescence, and "
                "Trace_Skiplist.tla replays every step (real (successor, mark) words = model) and evaluates the model's invariants on it")
    quick = cfg_text(["p1", "p2"], [1, 2], 2, 2, 1)
    mcs = [("MC_SL_2n.cfg", quick)]
    if T:
        mcs += [("MC_SL_3n.cfg", cfg_text(["p1", "p2"], [1, 2], 2, 3, 1)),
                ("MC_SL_inflight.cfg", cfg_text(["p1", "p2"], [1], 2, 2, 1, inflight=True))]
    # liveness (growth): under weak fairness of in-call steps every call returns (no retry loop spins for ever)
    if ctx.pid == "C13":
        lives = [("MC_SL_live_q.cfg", cfg_text(["p1", "p2"], [1], 2, 2, 1, invs=()))]
        if T:
            lives.append(("MC_SL_live_2k.cfg", cfg_text(["p1", "p2"], [1, 2], 2, 2, 1, invs=())))
        for name, text in lives:
            text = text.replace("SPECIFICATION Spec", "SPECIFICATION LiveSpec").replace("CHECK_DEADLOCK FALSE", "PROPERTY EveryCallReturns\nCHECK_DEADLOCK FALSE")
            r = mc(ctx, name, text, timeout=3000)
            if r.kind is not None:
                raise Infra("Skiplist.tla violates %s in %s (liveness): model error; the real skiplist is judged by traces" % (r.violated, name))
    cex = []
    for name, text in mcs:
        r = mc(ctx, name, text, timeout=2400)
        if not r.ok:
            cex.append((name, r))
    if cex:
        labels = [a.split(" line ")[0] for (a, _) in cex[0][1].trace[1:]]
        sc = to_script([re.sub(r"^a(?=[A-Z])", "", x) for x in labels], 1, 1)
        tr, info = run_scripts(ctx, [sc], "m1cex")
        if validate(ctx, tr, info, "model counterexample schedule on the real skiplist", 1):
            raise Infra("Skiplist.tla violates %s but the real skiplist does not reproduce it under the same schedule: model error" % cex[0][1].violated)
        return None
    # ---- M3: simulated behaviours
    for top in ([1, 2] if T else [1]):
        sim = cfg_text(["p1", "p2", "p3"], [1, 2, 3], 3, 8, top, invs=())
        open(os.path.join(ctx.wd, "Sim_SL.cfg"), "w").write(sim)
        behs, r = vlib.simulate_behaviours("Skiplist.tla", "Sim_SL.cfg", ctx.wd, 2000 if T else 300, 140, vlib.seed() + top)
        scripts = [to_script([re.sub(r"^a(?=[A-Z])", "", x) for x in b], top, rng.randrange(1 << 30), mm=(i % 2 == 1)) for i, b in enumerate(behs)]
        scripts = [s for s in scripts if s["procs"]]
        vlib.require_ops(ctx, scripts, "Skiplist.tla simulated behaviours (top %d)" % top)
        if top == 1:
            ctx.add_sample({"kind": "TLC-simulated behaviour as gate schedule (M3)", "procs": scripts[0]["procs"], "sched": scripts[0]["sched"][:40]})
        tr, info = run_scripts(ctx, scripts, "m3sim%d" % top)
        validate(ctx, tr, info, "TLC-simulated schedules on the real skiplist (top level %d)" % top, top)
        ends = [json.loads(l) for l in open(tr) if '"SlEnd"' in l]
        ctx.extra["schedule_steps_followed_on_impl_top%d" % top] = "%d of %d gate steps followed the TLC behaviour" % (
            sum(e["followed"] for e in ends), sum(len(e["sched"]) for e in ends))
        if top == 1:
            first_tr = tr
    # ---- M2
    if not ctx.violations or T:
        for top in ([1, 2, 3] if T else [1, 2]):
            tr = os.path.join(ctx.wd, "sl_m2_%d.ndjson" % top)
            p = vlib.run_harness(["sl", "-out", tr, "-seed", vlib.seed() * 10 + top, "-n", {1: 1200, 2: 700, 3: 500}[top] if T else 200, "-top", top] + (["-big"] if top > 1 else []), timeout=1800)
            validate(ctx, tr, json.loads(p.stdout.strip().splitlines()[-1]), "random gate schedules (top level %d)" % top, top)
            os.remove(tr)
        tr = os.path.join(ctx.wd, "sl_free.ndjson")
        p = vlib.run_harness(["sl", "-out", tr, "-seed", vlib.seed() + 5, "-n", 6000 if T else 1000, "-top", 3, "-big", "-free"], timeout=1800)
        validate(ctx, tr, json.loads(p.stdout.strip().splitlines()[-1]), "free-running goroutines", 3, fine=False)
        os.remove(tr)
        if ctx.pid == "C14":
            # iterators help unlinking marked nodes: the statistics must come out right when a reader, not a writer, wins the unlink
            tr = os.path.join(ctx.wd, "sl_free_it.ndjson")
            p = vlib.run_harness(["sl", "-out", tr, "-seed", vlib.seed() + 6, "-n", 5000 if T else 1000, "-top", 3, "-big", "-iters", 2, "-free"], timeout=1800)
            validate(ctx, tr, json.loads(p.stdout.strip().splitlines()[-1]), "free-running goroutines with concurrent iterators", 3, fine=False)
            os.remove(tr)
        # scale: hundreds of keys, 3-8 goroutines, no warm-up -- the maximum level grows concurrently, towers reach level 5-8
        tr = os.path.join(ctx.wd, "sl_wide.ndjson")
        p = vlib.run_harness(["sl", "-out", tr, "-seed", vlib.seed() + 9, "-n", 400 if T else 120, "-top", 12, "-free", "-wide"], timeout=1800)
        validate(ctx, tr, json.loads(p.stdout.strip().splitlines()[-1]), "free-running goroutines, hundreds of keys, growing towers", 12, fine=False)
        os.remove(tr)
    # ---- binding demonstration: flip one result in a recorded history
    if not ctx.violations:
        lines = open(first_tr).read().splitlines()
        starts = [k for k in range(len(lines)) if '"SlInit"' in lines[k]] + [len(lines)]
        # A flipped result of an operation that overlaps another one on the same key can still be linearizable,
        # so several single-field corruptions (in several scenarios) are tried: the binding is demonstrated when flips are rejected.
        cands = []
        for a, b in list(zip(starts, starts[1:]))[:10]:
            cands += [(a, b, i) for i in range(a, b) if '"Ret"' in lines[i]][:3]
        saved = (ctx.events, ctx.traces, ctx.states, ctx.transitions, list(ctx.violations))
        rejected = 0
        log("[M2] binding self-test: %d lines, %d scenarios, %d candidate flips" % (len(lines), len(starts) - 1, len(cands)))
        for (a, b, i) in cands:
            sc = lines[a:b]
            e = json.loads(sc[i - a])
            e["ok"] = not e["ok"]
            sc[i - a] = json.dumps(e)
            cp = os.path.join(ctx.wd, "corrupt.ndjson")
            open(cp, "w").write("\n".join(sc) + "\n")
            if not setlin(ctx, cp, "binding self-test (result at line %d flipped)" % (i + 1), 0, record=False):
                rejected += 1
                if rejected >= 2:
                    break
        ctx.events, ctx.traces, ctx.states, ctx.transitions = saved[:4]
        ctx.violations = saved[4]
        if cands and rejected == 0:
            raise Infra("binding self-test failed: every one of %d histories with one flipped result was accepted" % len(cands))
        ctx.extra["binding_selftest"] = "%d histories with one flipped result: no linearization found (rejected)" % rejected
    ctx.assumptions += ["interleaving is controlled at the verif yield points (every getNext / dcasNext of the search, insert and delete paths); executions are sequentially consistent",
                        "the maximum level is raised to Top before the scenario starts (a warmed-up skiplist); node heights are given to Insert3",
                        "DeleteNode targets only nodes whose Insert has returned (the public API hands out the pointer on return); the in-flight variant is checked in the model only",
                        "user-managed memory is exercised for allocation paths only here; reclamation safety is C04's driver"]
    return None
