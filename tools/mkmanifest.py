#!/usr/bin/env python3
"""Regenerate /verif/MANIFEST.json from the table below (single source of truth for the interface)."""
import json, os, subprocess
V = os.path.dirname(os.path.dirname(os.path.abspath(__file__)))
props = [json.loads(l) for l in open(os.path.join(V, "properties.jsonl"))]

CHECKS = {
 "C20": dict(
   technique="TLA+ model (NodeTable.tla, NodeList.tla) checked exhaustively by TLC; TLC state-graph edge cover replayed on the real table/list; TLC trace validation of recorded executions",
   text="TLC exhausts the transcribed table (all hash functions onto 2 buckets, all Update/Remove sequences to depth 5-6) against the abstract map (invariants Refines, Shape); every transition of that state graph (thorough) or a seeded sample of edge-covering walks (quick) is executed on the real nodetable.NodeTable and nitro.NodeList, and these plus long random sequences (constant/2/3-bucket/crc32 hashes) are recorded and validated by TLC against Trace_NodeTable/Trace_NodeList: every result and Get of every key after every step must equal the abstract map. Bounded model checking + trace validation is the right level for a small sequential component: the model instance is complete for its bounds and the real code is judged on every recorded step.",
   design_ref="DESIGN.md 4.7, 6 (C20)",
   note="Trusted: TLC, the Json module, the harness's event logging (pointer identity = <<key,generation>>); bounds: <=8 keys, <=8 buckets in traces; 3-4 keys, 2 buckets, depth 5-6 exhaustively."),
}

NOT_YET = "check not built yet (work in progress; see DESIGN.md section 8.1 build order)"

def main():
    hooks_commits = []
    try:
        out = subprocess.run(["git", "-C", "/repo", "log", "--format=%h %s"], stdout=subprocess.PIPE, text=True).stdout
        for line in out.splitlines():
            h, s = line.split(" ", 1)
            if s.startswith("verif hooks") or s.startswith("hooks:"):
                hooks_commits.append(h)
    except Exception:
        pass
    m = {"version": 1,
         "setup_cmd": "cd /verif && sh tools/setup.sh",
         "hooks": {"guard": "verif",
                   "enable": "go build -tags verif in /verif/harness (go.mod: replace github.com/couchbase/nitro => /repo); env GOFLAGS=-mod=mod GOPROXY=off GOSUMDB=off GOTOOLCHAIN=local",
                   "baseline_off_cmd": "cd /repo && go test -vet=off -count=1 -timeout 25m ./...",
                   "source_commits": hooks_commits, "add_only": True},
         "engines": [{"name": "tlc", "path": "/opt/veriftools/tla/tla2tools.jar", "serves_properties": sorted(CHECKS),
                      "kind_free_text": "TLA+ explicit-state model checker: exhaustive checking of /verif/spec modules and validation of NDJSON traces recorded from the real code"},
                     {"name": "vh", "path": "/verif/harness", "serves_properties": sorted(CHECKS),
                      "kind_free_text": "Go harness (stdlib only) built with -tags verif against /repo: executes TLC-derived scripts/schedules and seeded workloads on the real code and records event traces"}],
         "checks": [], "not_applicable": [],
         "notes": "bin/check <Cxx> quick|thorough [--replay <dir>]; exit 0 held / 1 VIOLATION / 2 infrastructure. See DESIGN.md."}
    for p in props:
        pid = p["id"]
        c = CHECKS.get(pid)
        if not c:
            m["not_applicable"].append({"property_id": pid, "reason": NOT_YET})
            continue
        m["checks"].append({"property_id": pid, "quick_cmd": "bin/check %s quick" % pid,
                            "thorough_cmd": "bin/check %s thorough" % pid,
                            "evidence_file": "/verif/evidence/%s.json" % pid,
                            "replay_cmd_template": "bin/check %s quick --replay {path}" % pid,
                            "engine": "tlc+vh",
                            "level_claimed": {"category": "model_checking", "text": c["text"], "design_ref": c["design_ref"]},
                            "level_note": c["note"], "technique": c["technique"]})
    json.dump(m, open(os.path.join(V, "MANIFEST.json"), "w"), indent=1)
    print("checks:", [c["property_id"] for c in m["checks"]])

main()
