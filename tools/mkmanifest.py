#!/usr/bin/env python3
"""Regenerate /verif/MANIFEST.json from the table below (single source of truth for the interface)."""
import json, os, subprocess
V = os.path.dirname(os.path.dirname(os.path.abspath(__file__)))
props = [json.loads(l) for l in open(os.path.join(V, "properties.jsonl"))]

CHECKS = {
 "C20": dict(
   technique="TLA+ model (NodeTable.tla, NodeList.tla) checked exhaustively by TLC; TLC state-graph edge cover replayed on the real table/list; TLC trace validation of recorded executions",
   text="TLC exhausts the transcribed table (all hash functions onto 2 buckets, all Update/Remove sequences to depth 5-6) against the abstract map (invariants Refines, Shape); every transition of that state graph (thorough) or a seeded sample of edge-covering walks (quick) is executed on the real nodetable.NodeTable and nitro.NodeList, and these plus long random sequences (constant/2/3-bucket/crc32 hashes) are recorded and validated by TLC against Trace_NodeTable/Trace_NodeList: every result and Get of every key after every step must equal the abstract map. Bounded model checking + trace validation is the right level for a small sequential component: the model instance is complete for its bounds and the real code is judged on every recorded step.",
   design_ref="DESIGN.md 4.7, 6 (C20)",
   note="Trusted: TLC, the Json module, the harness's event logging (pointer identity = <<key,generation>>); bounds: <=8 keys, <=8 buckets in traces; 3-4 keys, 2 buckets, depth 5-6 exhaustively."),
}

MV_NOTE = ("Trusted: TLC and its Json module; the harness's event logging; the verif gate (collection workers are parked at list begin and "
           "stepped explicitly, so traces are totally ordered). Bounds: exhaustive instances 2-3 keys, 1-2 values, 1-2 writers, 2-4 epochs; "
           "validated histories <= 20 keys (300 in the visitor profile), <= 56 snapshots, both comparators, both memory modes. "
           "Concurrent schedules of this property are covered by the C03/C04/C08 checks, not here.")
CHECKS.update({
 "C01": dict(
   technique="TLA+ model NitroMVCC.tla (invariant C01_SnapshotImmutable) exhausted by TLC; state-graph transitions replayed on the real store; TLC trace validation of recorded histories with every open snapshot re-scanned after every event",
   text="Exhaustive TLC over all histories of the bounded instances shows the design keeps every open snapshot's visible sequence equal to the view taken at creation; the real code is bound by replaying the graph's transitions and seeded random histories (several writers, out-of-order Open/Close, GC lists held at the verif gate and unlinked at arbitrary later points, scans with refresh rates 0..5) and validating every recorded scan and Count() against the view with TLC. Model checking + trace validation fits: the property is a state invariant over a small control state and must hold at every step of every history, which is exactly what TLC evaluates on both the model and the recorded executions.",
   design_ref="DESIGN.md 4.4, 6 (C01)", note=MV_NOTE),
 "C02": dict(
   technique="TLA+ model NitroMVCC.tla (C02_Results, C02_LiveMatches, C02_Counts) exhausted by TLC; edge-cover replay on the real store; TLC trace validation of random sequential histories",
   text="TLC proves for the bounded instances that the transcribed Put/Delete/GetNode paths ((key,bornSn) ordering, exists-comparator on the predecessor, same-epoch physical vs cross-epoch deadSn delete) agree with a reference set in every reachable state; every transition of the dumped graph (thorough) or a seeded sample (quick) is executed on the real store in all four comparator/memory variants, plus long random histories through 1-3 writers; TLC validates each result, the live set found in the structure, and Count()/ItemsCount/content of every new snapshot.",
   design_ref="DESIGN.md 4.4, 6 (C02)", note=MV_NOTE),
 "C06": dict(
   technique="TLA+ model NitroMVCC.tla (C06_Retained, C06_NoEarlyUnlink, C06_CollectorProgress, C06_Precise) exhausted by TLC; edge-cover replay; TLC trace validation of the physical chain, statistics and memory after every event",
   text="TLC exhausts all close orders with two collection workers and shows retention while visible and exact collection once no released list is pending; on the real code the level-0 chain with (key,value,bornSn,deadSn,mark), node count, soft deletes, MemoryInUse (against a walk with the code's own size functions), GetLastGCSn and GetSnapshots are recorded after every event of graph-derived and random histories (GC lists held at the gate, released in random order) and judged by TLC. Reading: garbage of epoch d may stay until snapshot d is collected (implementation's order); completeness is required once nothing is pending.",
   design_ref="DESIGN.md 4.4, 6 (C06)", note=MV_NOTE + " Contended deletes by several goroutines (gc-list integrity) belong to the concurrent drivers."),
 "C09": dict(
   technique="TLA+ model NitroMVCC.tla (C09_IterExact) exhausted by TLC with Refresh enabled at every position; every iterator transition replayed on the real iterator; TLC trace validation of random iterator histories",
   text="The model iterator walks the physical version list exactly as iterator.go (key-only seek lands on the oldest physical version, skipUnwanted, refresh counter); TLC shows it always equals the abstract iterator over the snapshot's view for all histories/rates/refresh placements of the bounded instances; the real iterator is driven through the graph's transitions and random histories with invisible versions pinned, and (Valid, Get) of every open iterator is validated by TLC after every event.",
   design_ref="DESIGN.md 4.4, 6 (C09)", note=MV_NOTE),
 "C10": dict(
   technique="TLA+ model NitroMVCC.tla (C10_VisitPartition over all pivot choices) exhausted by TLC; TLC trace validation of recorded Visitor calls (per-shard sequences, error, termination watchdog)",
   text="TLC checks that for every choice of pivots among the physical versions the shards' walks concatenate to the snapshot's view; real Visitor calls on latest and older snapshots (other versions present), shards 1..64 and > item count, concurrency 1/2/8, injected callback errors, databases up to 300 items, are recorded and judged by TLC: concatenation in shard order equals the view, error returned iff a callback failed, the call returns within its watchdog.",
   design_ref="DESIGN.md 4.4, 6 (C10)", note=MV_NOTE + " Pivots actually chosen by GetRangeSplitItems are not logged; the model covers a superset."),
})

CHECKS["C18"] = dict(
   technique="TLA+ models Builder.tla / Merger.tla exhausted by TLC; every Add order and merger transition of the dumped graphs executed on the real builder / merge iterator; TLC trace validation (per-level chains, statistics, yields)",
   text="Builder.tla transcribes Segment.Add and Assemble pointer by pointer and TLC proves for all shapes (empty leading/middle/trailing segments) and level assignments of the bounded instance that every level is the concatenation of the nodes of that height ending at the tail; Merger.tla transcribes the heap of (iterator,node) entries including what a re-seek leaves behind. The real builder is run on every Add order of the graph and on random shapes (concurrent filling, both memory modes) with per-level walks, statistics and follow-up Insert/Delete/Lookup/scan validated by TLC; the real merge iterator runs every transition of the merger graph plus random scans with re-seeks, each (Valid,item) validated against the sorted multiset union.",
   design_ref="DESIGN.md 4.7, 6 (C18)",
   note="Trusted: TLC, Json module, harness logging and the verif accessors (VerifNext, VerifLevel). Node levels are observed, not controlled. Bounds: exhaustive 3 segments/4-5 items/3 levels, 2-3 lists over 2-3 values to depth 5-6; traces <= 6 segments/44 items, <= 4 lists.")

CHECKS["C19"] = dict(
   technique="TLA+ operators Framing.tla evaluated exhaustively by TLC over a small alphabet; TLC trace validation recomputing the framing of recorded real writer/reader runs byte for byte",
   text="Framing.tla defines Encode/Decode (both format versions), the XOR-bag checksum and the KV layout as pure operators; TLC evaluates round trip, truncation detection, checksum equality and KV inverses for all streams of the small instance (bytes 0/1/255 that look like prefixes and terminators). Real FileWriter/FileReader runs (items 1..70000 bytes, adversarial contents, tiny disk blocks) are recorded with the file bytes and validated by TLC: the file must equal Encode(items), the decoded items the written ones, end-of-stream reported, reader checksum = writer checksum; the v0 reader is fed spec-conformant v0 files. For a pure codec the specification serves as an executable oracle; exhaustive small scope + byte-exact validation of recorded runs is the strongest this technique offers here. Streams with one item of 16 MiB or more and KV pairs with keys of 32767/32768/65535 bytes are judged by their headers, sizes and round trip.",
   design_ref="DESIGN.md 4.7, 6 (C19), 9",
   note="Trusted: TLC, Json module, the verif accessors VerifNewFileWriter/Reader/VerifNewItem. CRC32 uninterpreted (checksums compared implementation-to-implementation). Bounds: exhaustive <=3 items of <=2-3 bytes over {0,1,255}; traces: lengths 1..70000, <=5 items per stream.")

BK_NOTE = ("Trusted: TLC, strace (-f -y -xx), RLIMIT_FSIZE semantics, the harness's panic/hang classification (goroutine dump). Real StoreToDisk uses runtime.NumCPU() "
           "shards (16 here); model instances have 2-3 shards with <= 2 items. Crash model: process death between syscalls; no torn writes or power loss.")
CHECKS["C11"] = dict(
   technique="TLA+ model Backup.tla (C11_DamageDetected, C11_MultiShard over the Load operator) exhausted by TLC; exhaustive single-fault enumeration on real backup directories with every outcome judged by TLC (Trace_Backup.tla)",
   text="Backup.tla models LoadFromDisk as an operator over disk images and TLC checks that every single fault of every completed backup of the instance yields error or exact. On the real code every byte of every file of small stored databases is altered (3 patterns), every file truncated at every length and removed, plus multi-shard combinations, for several restore concurrencies, delta on/off, both comparators/memory modes; LoadFromDisk runs under a watchdog with panic capture and each outcome is validated by TLC against the stored snapshot's view. Fault enumeration is complete per database (thorough) which is what 'every single-fault damage' asks for; the model supplies the allowed outcome set and the classes. Every digit of a manifest is also altered to every other digit (a shard name turning into another listed name); backups written by more writers than CPUs, loads with DiskBlockSize 16/64; the allocator is checked after Close of every instance that loaded or failed to load an image.",
   design_ref="DESIGN.md 4.6, 6 (C11)", note=BK_NOTE)
CHECKS["C12"] = dict(
   technique="TLA+ model Backup.tla (C12_NoSilentPartial, C12_CrashSafe with Crash/DiskFull between any two file-system mutations) exhausted by TLC; real StoreToDisk under RLIMIT_FSIZE sweep and strace; every syscall prefix materialised and loaded; outcomes judged by TLC",
   text="TLC explores every interleaving of buffered writes, flushes, crash and disk-full in the model of StoreToDisk's mutation order and shows success implies an exactly loadable backup and every crash image loads as error or exact. The real StoreToDisk runs in a child under every file-size limit from 0 to the largest file (writes fail with EFBIG) and under strace; the recorded mutation sequence is compared with the model's order and every prefix is rebuilt as a directory and given to the real LoadFromDisk; TLC judges ret=ok => exact and crash-prefix outcomes in {error, exact}. One delta configuration is written by more writers than CPUs, so that the delta manifests are the largest manifests and a size limit can fail them alone.",
   design_ref="DESIGN.md 4.6, 6 (C12)", note=BK_NOTE)

AB_NOTE = ("Trusted: TLC, the gate scheduler (goroutines parked at the verif yield points of access_barrier.go, one released at a time => sequentially consistent executions; "
           "weak-memory effects are out of scope), harness event logging. Bounds: exhaustive 1-2 accessors x 2 calls + 2 flushers (thorough: nested holders, flusher holding a token, 3 flushes); "
           "gate/free-running scenarios up to 4 accessors and 3 flushers.")
CHECKS["C16"] = dict(
   technique="TLA+ model AccessBarrier.tla (one action per atomic operation) exhausted by TLC; TLC-simulated behaviours replayed as gate schedules on the real barrier; TLC trace validation at API grain (BarrierAPI.tla) and step conformance (Trace_AccessBarrier.tla)",
   text="TLC enumerates every interleaving of the barrier's atomic steps for the bounded instances and checks in-order/once destruction, waiting for earlier accessors, no holder in a destructed session and the code's two panics. The real barrier is executed under a deterministic gate scheduler following TLC-simulated behaviours and seeded random schedules, plus free-running goroutines; every execution is validated by TLC: destructor invocations relative to Acquire/Release/FlushSession events decide the property, and the real counters must equal the model's after every step (binding). A scale scenario holds 70 000 (thorough: 200 000) tokens of one session at once across two flushes.",
   design_ref="DESIGN.md 4.2, 6 (C16/C17)", note=AB_NOTE)
CHECKS["C17"] = dict(
   technique="TLA+ model AccessBarrier.tla (NothingPending at quiescence) exhausted by TLC; gate-scheduled and free-running executions of the real barrier validated by TLC (BarrierAPI.tla: quiescent => destructor calls = flush calls)",
   text="Liveness at quiescence is a state invariant of the model (Quiescent => every flush destructed) that TLC checks over all interleavings, in particular two sessions terminating at nearly the same time; on the real barrier the harness emits a Quiesce event whenever every process is idle and no token is held, under TLC-simulated and random gate schedules and at the end of free-running runs, and TLC requires destructor calls = FlushSession calls there. LiveSpec (fairness of in-call steps and releases) satisfies EveryFlushDestructed and EveryCallReturns (TLC liveness checking).",
   design_ref="DESIGN.md 4.2, 6 (C16/C17)", note=AB_NOTE)

CHECKS["C08"] = dict(
   technique="TLA+ model SnapRef.tla (Open/Close/GC at the grain of their atomic steps) exhausted by TLC; inductive invariant of the count (RefCountInd.tla) discharged by Apalache for unbounded counts and calls; TLC-simulated behaviours replayed as gate schedules on the real Snapshot.Open/Close/NewIterator/GC; TLC trace validation at API grain (SnapAPI.tla) and step conformance (Trace_SnapRef.tla)",
   text="TLC enumerates every interleaving of Open's load/compare-and-swap against Close's decrement, list move, try-lock and per-snapshot collection steps for 2-3 processes and 1-3 snapshots: no handle on a retired snapshot, retired once, released in order, collector not stuck after a forced pass at quiescence. On the real code the gate scheduler parks goroutines at the yield points inside Open/Close/GC and enforces TLC-simulated and random schedules; free-running goroutines add unsteered executions; TLC judges Open/NewIterator results against retirement, retire-once, collector order and lastGCSn/lists at quiescence, and checks the real reference counts and lists equal the model's after every step. Half of the free-running scenarios end with five goroutines, released together, trying Open/NewIterator 20000 times each on the released snapshots (windows without a yield point).",
   design_ref="DESIGN.md 4.3, 6 (C08)",
   note="Trusted: TLC, the gate scheduler (sequentially consistent interleavings at yield-point grain), harness logging. Bounds: exhaustive 2 procs x 2-3 snapshots, 3 procs x 1-2 snapshots; scenarios up to 4 goroutines, 3 snapshots. The sequential part (Open after last Close fails, NewIterator nil) is also checked in every NitroMVCC trace.")

SL_NOTE = ("Trusted: TLC, the gate scheduler (sequentially consistent interleavings at the granularity of the verif yield points = every getNext/dcasNext of the search/insert/delete paths), "
           "harness logging and the verif accessors. Bounds: exhaustive 2 processes x 2 operations, 2 keys, 2-3 nodes, 2 levels; gate scenarios up to 6 goroutines, 5 keys, 3-4 levels; free-running up to 6 goroutines. "
           "amd64 node layout only; weak-memory effects out of scope.")
CHECKS["C13"] = dict(
   technique="TLA+ model Skiplist.tla (one action per shared-memory access) exhausted by TLC; TLC-simulated behaviours replayed as gate schedules on the real skiplist; TLC searches a linearization of every recorded call/return history (SetLin.tla); step conformance with the model's invariants evaluated on the real execution (Trace_Skiplist.tla)",
   text="TLC enumerates all interleavings of the atomic steps of findPath / Insert4 / softDelete / deleteNode for the bounded instance and checks NoDupKeys, exactly-one successful DeleteNode per node, and that every failed operation is justified by the key's presence/absence during its interval (fixed linearization points: publish CAS, level-0 mark CAS). Real executions under TLC-simulated and random gate schedules, and free-running goroutines, are recorded; SetLin.tla lets TLC place the linearization points of every history (a violation = no placement explains the results and the final scan); Trace_Skiplist.tla replays each step, requires every real (successor, mark) word to equal the model's, and evaluates the model's properties on that state. LiveSpec (weak fairness of in-call steps) satisfies EveryCallReturns. The gate schedules in bursts; contended-delete pattern scenarios and free-running scenarios with hundreds of keys and organically growing towers complement the small ones; a panic of the skiplist becomes a Panic event and a verdict.",
   design_ref="DESIGN.md 4.1, 6 (C13-C15)", note=SL_NOTE)
CHECKS["C14"] = dict(
   technique="TLA+ model Skiplist.tla (QStruct, NoMarkedLinked at quiescence) exhausted by TLC; gate-scheduled and free-running executions of the real skiplist, builder and restore; per-level walk and statistics at quiescence judged by TLC (SlQuiesce.tla, Trace_Builder.tla)",
   text="QStruct is a quiescence invariant of Skiplist.tla checked over all interleavings of the bounded instance (every level a strictly increasing chain of live nodes ending at the tail, sub-sequence of the level below, every live node linked up to its height). On the real code, after every gate-scheduled / free-running scenario the harness walks every level through the verif accessors (including marked nodes) and reads GetStats; TLC judges order, sub-sequence, tail, no marked node linked, node count, per-level distribution, soft deletes, memory and the iterator's view. Structures produced by the builder are judged by the C18 check, restored ones by the C05 check, with the same walk. Free-running scenarios with concurrent iterators (a reader winning the unlink) and with hundreds of keys / growing towers are walked too.",
   design_ref="DESIGN.md 4.1, 6 (C13-C15)", note=SL_NOTE)

NW_NOTE = ("Trusted: TLC; the harness allocators (registry with poison, guard pages via mmap/mprotect in a child process) and the parent's attribution of a fatal fault by address; "
           "event order = logger mutex order (Call before the call, Ret after it). Free-running schedules are sampled by the Go scheduler, not enumerated (the instruction-wide windows of the skiplist, barrier and "
           "snapshot handles are enumerated by the C13/C16/C17/C08 checks under the gate). NitroWriters.tla instances: 2-3 writers x 2-4 calls on one key, two epochs. "
           "NitroWriters.tla is also bound under the gate scheduler (vh nw): TLC-simulated behaviours and random schedules drive real writers from one nitro yield point to the next, the free worker is held at its hook, "
           "every model action is one event and Trace_NitroWriters.tla compares every node's real fields, garbage lists and allocator verdicts after every step; "
           "a scenario whose control flow leaves the step model is judged by NitroWritersAPI.tla from path-independent facts (two successful deletes of one version, allocator errors, leaks) before it is reported as model drift.")
CHECKS["C03"] = dict(
   technique="TLA+ model NitroWriters.tla (writer paths at atomic-step grain) exhausted by TLC and replayed step by step on the real writers under a gate scheduler (Trace_NitroWriters.tla); TLC searches a linearization of every recorded concurrent history incl. the next snapshot's content and Count (SetLin.tla)",
   text="NitroWriters.tla splits Put/Delete2 into lookup-under-token, bornSn read, same-epoch mark / deadSn CAS, list append and session flush and TLC checks one winner per delete and at most one live version for every interleaving of 2-3 writers. Real writers (2-6 goroutines, shared keys, same- and cross-epoch deletes, with concurrent readers) run free between quiescent NewSnapshots; SetLin.tla makes TLC place a linearization point between each Call and Ret such that all results, the snapshot scan, Count(), ItemsCount, every concurrent reader's scan and the final physical chain are explained; no placement = violation. Start-gun scenarios release all writers on the same key at the same instant (spin barrier); the gate scheduler runs in bursts (stickiness drawn from the seed).",
   design_ref="DESIGN.md 4.5, 6 (C03)", note=NW_NOTE)
CHECKS["C04"] = dict(
   technique="TLA+ model NitroWriters.tla (NoUAF, NoDoubleFree, FreedImpliesUnlinked over writers + barrier + GC worker + free worker) exhausted by TLC; real workloads under a guard-page allocator (child process) and a registry allocator with poison; allocator events and attributed faults judged by TLC (MemAPI.tla)",
   text="The model marks every step that dereferences a node and TLC checks that no such step touches a freed node, no node is freed twice and nothing linked is freed, for all interleavings of contending writers with the reclamation pipeline, and TLC-simulated behaviours of that model are replayed on the real writers / barrier / free worker under the gate (Trace_NitroWriters.tla: a session destructed while a writer that entered before its flush is inside, a node freed while held, allocator errors are verdicts); Skiplist.tla's NoMarkedLinked and AccessBarrier.tla's C16 invariants (checked by C13/C16) supply the layers below. On the real code every block lives on its own guard-protected pages that become inaccessible on free, so any read or write after free faults immediately and is attributed by address; double and invalid frees are recorded by the allocator; the harness dereferences every item handed out by iterators/visitors; TLC validates the event stream. Churn scenarios rotate over instance kinds (built by Put / restored by LoadFromDisk with writers created before the restore), snapshot policies (pinned first / rolling latest, so that collection and free workers run during scans) and backup modes (plain / delta with callbacks that check the item handed to them against the allocator's registry).",
   design_ref="DESIGN.md 4.5, 5.2, 6 (C04)", note=NW_NOTE)
CHECKS["C07"] = dict(
   technique="TLA+ model NitroWriters.tla (AllFreedOnceAtClose) exhausted by TLC and replayed on the real writers under the gate (Trace_NitroWriters.tla); allocator events of real histories (contended writers, rejected Puts, pinned snapshots, backups, LoadFromDisk-populated instances) judged by TLC (MemAPI.tla)",
   text="TLC checks that after the snapshot is closed, the workers drained and Close ran, every node allocated in any interleaving has been freed exactly once. Real instances run with a registry allocator whose every malloc/free is an event; at Close TLC requires allocated = freed, no double free and no foreign pointer, for contended-writer scenarios and for store -> restore -> operate -> Close sequences (delta on/off). Backups of those sequences delete, churn snapshots and collect inside the backup callback (duplicates across shard and delta files); LoadFromDisk of damaged backups followed by Close must leave the allocator empty whether the restore succeeded or failed.",
   design_ref="DESIGN.md 4.5, 6 (C07)", note=NW_NOTE)

CHECKS["C05"] = dict(
   technique="TLA+ models Backup.tla (C05_StoreLoads), NitroMVCC.tla (C10_VisitPartition, C01) and NitroDelta.tla (delta interleaving: ScanPlusDeltaIsView, RestoreExact) exhausted by TLC; TLC trace validation of recorded store -> restore -> continue histories (Trace_NitroMVCC.tla) and of backups taken under free-running concurrency (SetLin.tla)",
   text="The backup is a visitor scan written through the framed files: TLC checks the scan partitions the snapshot's view for every pivot choice and that a fault-free store loads exactly for every write/flush interleaving. On the real code, StoreToDisk of latest or older snapshots runs while mutations, snapshot churn and garbage unlinking happen inside its item callback (delta on/off, concurrency 1/2/8); the directory is restored into a fresh instance and TLC requires items and Count() to equal the stored snapshot's view, then keeps validating the ongoing workload on the restored instance; backups taken while free-running writers, readers and GC run are restored and compared with the snapshot's content.",
   design_ref="DESIGN.md 4.4, 4.6, 6 (C05)",
   note=MV_NOTE + " Real StoreToDisk uses runtime.NumCPU() (16) shards; databases up to a few hundred items.")

CHECKS["C15"] = dict(
   technique="TLA+ model Skiplist.tla with iterator processes (IterNoBackwards, IterOnlyPresent, IterSeekLands, IterComplete) exhausted by TLC; TLC-simulated behaviours replayed as gate schedules; scans judged by TLC from the call/return log (IterAPI.tla) and through step conformance (Trace_Skiplist.tla)",
   text="The iterator's SeekFirst/Seek/Next are modelled at the grain of iterator.go (load of the current node's link, helping to unlink a marked current node, re-search after a lost race) next to mutating processes, with ghost sets of the keys present at some / at every moment of each scan; TLC checks the four iterator invariants for every interleaving of the bounded instances. Real scans run under TLC-simulated and random gate schedules (deleting the node under the iterator and its predecessor) and free-running with Refresh and Pause/Resume; IterAPI.tla judges them using only facts true under every linearization (sound), Trace_Skiplist.tla evaluates the model's iterator invariants on the step-conformant real execution (exact).",
   design_ref="DESIGN.md 4.1, 6 (C13-C15)", note=SL_NOTE)

NOT_YET = "check not built yet (work in progress; see DESIGN.md section 8.1 build order)"

def main():
    hooks_commits = []
    try:
        out = subprocess.run(["git", "-C", "/repo", "log", "--format=%h %s"], stdout=subprocess.PIPE, text=True).stdout
        for line in out.splitlines():
            h, s = line.split(" ", 1)
            if s.startswith("verif hooks") or s.startswith("hooks:"):
                hooks_commits.append(h)
    except Exception:
        pass
    m = {"version": 1,
         "setup_cmd": "cd /verif && sh tools/setup.sh",
         "hooks": {"guard": "verif",
                   "enable": "go build -tags verif in /verif/harness (go.mod: replace github.com/couchbase/nitro => /repo); env GOFLAGS=-mod=mod GOPROXY=off GOSUMDB=off GOTOOLCHAIN=local",
                   "baseline_off_cmd": "cd /repo && go test -vet=off -count=1 -timeout 25m ./...",
                   "source_commits": hooks_commits, "add_only": True},
         "engines": [{"name": "tlc", "path": "/opt/veriftools/tla/tla2tools.jar", "serves_properties": sorted(CHECKS),
                      "kind_free_text": "TLA+ explicit-state model checker: exhaustive checking of /verif/spec modules and validation of NDJSON traces recorded from the real code"},
                     {"name": "vh", "path": "/verif/harness", "serves_properties": sorted(CHECKS),
                      "kind_free_text": "Go harness (stdlib only) built with -tags verif against /repo: executes TLC-derived scripts/schedules and seeded workloads on the real code and records event traces"}],
         "checks": [], "not_applicable": [],
         "notes": "bin/check <Cxx> quick|thorough [--replay <dir>]; exit 0 held / 1 VIOLATION / 2 infrastructure. See DESIGN.md."}
    for p in props:
        pid = p["id"]
        c = CHECKS.get(pid)
        if not c:
            m["not_applicable"].append({"property_id": pid, "reason": NOT_YET})
            continue
        m["checks"].append({"property_id": pid, "quick_cmd": "bin/check %s quick" % pid,
                            "thorough_cmd": "bin/check %s thorough" % pid,
                            "evidence_file": "/verif/evidence/%s.json" % pid,
                            "replay_cmd_template": "bin/check %s quick --replay {path}" % pid,
                            "engine": "tlc+vh",
                            "level_claimed": {"category": "model_checking", "text": c["text"], "design_ref": c["design_ref"]},
                            "level_note": c["note"], "technique": c["technique"]})
    json.dump(m, open(os.path.join(V, "MANIFEST.json"), "w"), indent=1)
    print("checks:", [c["property_id"] for c in m["checks"]])

main()
