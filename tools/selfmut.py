#!/usr/bin/env python3
"""Self-made mutation battery: applies small source mutations to /repo (one at a time, working tree only),
runs the quick check of the targeted property, restores the tree.  Not a registered check -- a calibration
tool: `python3 tools/selfmut.py [ids...]`.  Results go to /verif/seeded/selfmade/results.json."""
import json, os, subprocess, sys, time

SRC_REPO = "/repo"
SRC_V = os.path.dirname(os.path.dirname(os.path.abspath(__file__)))
BOX = os.environ.get("SELFMUT_BOX", "/tmp/selfmut")
REPO = os.path.join(BOX, "repo")      # scratch worktree of /repo: /repo itself is never touched
V = os.path.join(BOX, "verif")        # scratch copy of /verif whose harness builds against the scratch worktree


def prepare():
    os.makedirs(BOX, exist_ok=True)
    if not os.path.exists(REPO):
        subprocess.run(["git", "-C", SRC_REPO, "worktree", "add", "-q", "--detach", REPO, "HEAD"], check=True)
    else:
        subprocess.run("git -C %s checkout -q --detach $(git -C %s rev-parse HEAD) && git -C %s checkout -- ." % (REPO, SRC_REPO, REPO), shell=True, check=True)
    subprocess.run(["rsync", "-a", "--delete", "--exclude", ".git", "--exclude", "work", "--exclude", "replays", "--exclude", "evidence",
                    "--exclude", "seeded", "--exclude", "harness/bin", SRC_V + "/", V + "/"], check=True)
    gm = os.path.join(V, "harness", "go.mod")
    txt = open(gm).read().replace("=> /repo", "=> " + REPO)
    open(gm, "w").write(txt)

# (id, property, file, old, new, note)
M = [
 ("m01", "C01", "iterator.go", "(itm.deadSn > 0 && itm.deadSn <= it.snap.sn)", "(itm.deadSn > 0 && itm.deadSn < it.snap.sn)", "visibility off by one: a version deleted in epoch sn stays visible to snapshot sn"),
 ("m02", "C02", "nitro.go", "if thisItem.deadSn != 0 || thatItem.deadSn != 0 {", "if thisItem.deadSn != 0 {", "exists-comparator ignores the predecessor's deadSn: Put rejected when only a dead version exists"),
 ("m03", "C06", "nitro.go", "\t\tif sn.sn != m.GetLastGCSn()+1 {\n\t\t\treturn\n\t\t}\n", "", "collectDead releases retired snapshots out of order"),
 ("m04", "C06", "nitro.go", "\t\t\ttail.SetLink(w.gchead)\n\t\t\ttail = w.gctail\n", "\t\t\ttail.SetLink(w.gchead)\n", "NewSnapshot stitches a third writer's list behind the first tail (second list dropped)"),
 ("m05", "C08", "nitro.go", "\tif newRefcount == 0 {\n\t\tbuf := s.db.snapshots.MakeBuf()", "\tif newRefcount <= 0 {\n\t\tbuf := s.db.snapshots.MakeBuf()", "Close retires on <= 0 (harmless sequentially)"),
 ("m06", "C10", "nitro.go", "if prevItm == nil || m.insCmp(unsafe.Pointer(itm), unsafe.Pointer(prevItm)) > 0 {", "if prevItm == nil || m.insCmp(unsafe.Pointer(itm), unsafe.Pointer(prevItm)) != 0 {", "pivot filter accepts decreasing pivots"),
 ("m07", "C11", "nitro.go", "\t\tif (haveChecksums || checksums[i] != 0) && checksums[i] != rdr.Checksum() {", "\t\tif i+1 < len(readers) && (haveChecksums || checksums[i] != 0) && checksums[i] != rdr.Checksum() {", "the last shard's checksum is not compared"),
 ("m08", "C12", "file.go", "\tif err := f.w.Flush(); err != nil {\n\t\tf.fd.Close()\n\t\treturn err\n\t}\n", "\tf.w.Flush()\n", "final Flush error dropped again"),
 ("m09", "C13", "skiplist/skiplist.go", "\t\t\tif delNode.dcasNext(i, next, next, false, true) && i == 0 {", "\t\t\tif delNode.dcasNext(i, next, next, false, true) || i == 0 {", "softDelete reports success to every caller that reaches level 0"),
 ("m10", "C14", "skiplist/skiplist.go", "\t\tsts.AddInt64(&sts.softDeletes, -1)\n", "", "soft-delete statistic never decremented"),
 ("m11", "C16", "skiplist/access_barrier.go", "\t\tif liveCount > barrierFlushOffset {", "\t\tif liveCount > barrierFlushOffset+1 {", "Acquire back-off test off by one"),
 ("m12", "C17", "skiplist/access_barrier.go", "\t\t\t\t\tif ab.hasDueSession(buf) {\n", "\t\t\t\t\tif false && ab.hasDueSession(buf) {\n", "re-check after releasing the try-lock removed (lost wake-up returns)"),
 ("m13", "C18", "skiplist/builder.go", "\t\t\t} else if head[l] == nil && seg.head[l] != nil {", "\t\t\t} else if seg.head[l] != nil {", "Assemble overwrites the head of a level when an earlier tail is missing"),
 ("m14", "C19", "item.go", "\tbinary.BigEndian.PutUint32(buf[0:4], uint32(itm.dataLen))", "\tbinary.BigEndian.PutUint32(buf[0:4], uint32(itm.dataLen)&0xffffff)", "length prefix truncated to 24 bits (items >= 16 MiB)"),
 ("m15", "C20", "nodetable/table.go", "\t\t\t\tnt.fastHT[res.hash] = encodePointer(decodePointer(nt.fastHT[res.hash]), false)\n\t\t\t\tnt.conflicts--", "\t\t\t\tnt.conflicts--", "conflict bit not cleared when the overflow slice empties"),
 ("m16", "C03", "nitro.go", "\tsuccess = atomic.CompareAndSwapUint32(&gotItem.deadSn, 0, sn)\n", "\tsuccess = gotItem.deadSn == 0\n\tgotItem.deadSn = sn\n", "deadSn stamped without compare-and-swap: two deleters both win"),
 ("m17", "C04", "nitro.go", "\tbarrier := w.store.GetAccesBarrier()\n\ttoken := barrier.Acquire()\n\tdefer barrier.Release(token)\n\n\tif n := w.GetNode(bs); n != nil {", "\tif n := w.GetNode(bs); n != nil {", "Delete2 no longer holds a token across lookup and delete"),
 ("m18", "C07", "nitro.go", "\t} else {\n\t\tw.freeItem(x)\n\t\tn = nil\n\t}", "\t} else {\n\t\tn = nil\n\t}", "a rejected Put leaks its item"),
 ("m19", "C15", "skiplist/iterator.go", "\t\t\tif found && last == it.curr {\n", "\t\t\tif false && found && last == it.curr {\n", "iterator does not retry when its re-search finds the same marked node"),
 ("m20", "C12", "nitro.go", "\t\tif err := w.WriteItem(itm); err != nil {\n\t\t\treturn err\n\t\t}\n", "\t\tw.WriteItem(itm)\n", "backup ignores item write errors"),
 ("m21", "C09", "iterator.go", "\t\tit.iter.Seek(unsafe.Pointer(itm))\n\t\tit.skipUnwanted()", "\t\tit.iter.Seek(unsafe.Pointer(itm))", "Refresh no longer skips invisible versions (with the exact comparator it lands exactly anyway?)"),
 ("m22", "C09", "nitro.go", "\t\tv = int(thisItem.bornSn) - int(thatItem.bornSn)", "\t\tv = int(thatItem.bornSn) - int(thisItem.bornSn)", "versions of a key ordered newest first"),
 ("m24", "C05", "nitro.go", "\t\tif itm.bornSn <= ctx.sn && itm.deadSn > ctx.sn {", "\t\tif itm.bornSn < ctx.sn && itm.deadSn > ctx.sn {", "delta writer skips items born in the stored snapshot's own epoch (needs GC of such an item during a delta backup, before the scan reaches it)"),
 ("m23", "C01", "nitro.go", "\tsnap := &Snapshot{db: m, sn: m.GetCurrSn(), refCount: 1, count: m.ItemsCount()}", "\tsnap := &Snapshot{db: m, sn: m.GetCurrSn(), refCount: 1, count: m.ItemsCount() + 0}", "no-op control mutant (must NOT be flagged)"),
]


def run(cmd, cwd=None, timeout=3000):
    return subprocess.run(cmd, shell=True, cwd=cwd, stdout=subprocess.PIPE, stderr=subprocess.STDOUT, text=True, timeout=timeout)


def main():
    want = set(sys.argv[1:])
    out = {}
    prepare()
    resf = os.path.join(SRC_V, "seeded", "selfmade", "results.json")
    os.makedirs(os.path.dirname(resf), exist_ok=True)
    if os.path.exists(resf):
        out = json.load(open(resf))
    assert run("git -C %s status --porcelain --untracked-files=no" % REPO).stdout.strip() == "", "repo tree not clean"
    for (mid, prop, f, old, new, note) in M:
        if want and mid not in want and prop not in want:
            continue
        path = os.path.join(REPO, f)
        src = open(path).read()
        if src.count(old) != 1:
            out[mid] = {"property": prop, "status": "pattern not found (%d)" % src.count(old), "note": note}
            print(mid, "pattern not found", src.count(old))
            continue
        open(path, "w").write(src.replace(old, new))
        try:
            b = run("go build ./... ", cwd=REPO)
            if b.returncode != 0:
                out[mid] = {"property": prop, "status": "does not compile", "note": note}
                print(mid, "does not compile")
                continue
            t0 = time.time()
            r = run("bin/check %s quick" % prop, cwd=V)
            viol = [l for l in r.stdout.splitlines() if l.startswith("VIOLATION")]
            rc = r.returncode
            out[mid] = {"property": prop, "file": f, "note": note, "rc": rc, "wall_s": round(time.time() - t0, 1),
                        "violations": [v[:300] for v in viol[:3]],
                        "detected": rc == 1}
            print(mid, prop, "rc=%d" % rc, (viol[0][:160] if viol else r.stdout.strip().splitlines()[-1][:160] if r.stdout.strip() else ""))
        finally:
            open(path, "w").write(src)
        json.dump(out, open(resf, "w"), indent=1)
    assert run("git -C %s status --porcelain --untracked-files=no" % REPO).stdout.strip() == ""


if __name__ == "__main__":
    main()
