----------------------------- MODULE Framing -----------------------------
(* item.go / file.go as pure operators over byte sequences (bytes are 0..255):
     v1 frame = 4-byte big-endian length, item bytes; v0 frame = 2-byte big-endian length, item bytes;
     a stream is the frames of its (non-empty) items followed by a zero-length terminator frame;
     the checksum of a stream is the XOR over its items of crc32(length prefix) XOR crc32(item bytes).
   CRC32 is uninterpreted: a checksum is modelled as the set of byte strings that occur an odd number
   of times (XOR = symmetric difference), which is all that reader/writer equality depends on.
   KV layout: 2-byte little-endian key length, key, value; CompareKV orders by key bytes.

   C19: Decode(Encode(s)) = s followed by end-of-stream; reader checksum = writer checksum; the v0
   reader decodes v0 frames; KVFromBytes inverts KVToBytes; CompareKV = bytes.Compare on keys. *)
EXTENDS Integers, Sequences, FiniteSets, TLC

BE32(n) == <<(n \div 16777216) % 256, (n \div 65536) % 256, (n \div 256) % 256, n % 256>>
BE16(n) == <<(n \div 256) % 256, n % 256>>
LE16(n) == <<n % 256, (n \div 256) % 256>>
HdrLen(ver) == IF ver = 0 THEN 2 ELSE 4
Hdr(n, ver) == IF ver = 0 THEN BE16(n) ELSE BE32(n)
Frame(item, ver) == Hdr(Len(item), ver) \o item
RECURSIVE Frames(_, _)
Frames(items, ver) == IF items = <<>> THEN <<>> ELSE Frame(Head(items), ver) \o Frames(Tail(items), ver)
Encode(items, ver) == Frames(items, ver) \o Hdr(0, ver)        \* writer: items, then terminator on Close

HdrVal(bs, ver) == IF ver = 0 THEN bs[1] * 256 + bs[2]
                   ELSE bs[1] * 16777216 + bs[2] * 65536 + bs[3] * 256 + bs[4]
(* reader: ReadItem until a nil item (terminator) or an error (short read) -- item.go:85-114 *)
RECURSIVE Dec(_, _, _)
Dec(bs, ver, acc) ==
  LET h == HdrLen(ver) IN
  IF Len(bs) < h THEN [items |-> acc, st |-> "error"]
  ELSE LET n == HdrVal(bs, ver) IN
       IF n = 0 THEN [items |-> acc, st |-> "eos"]
       ELSE IF Len(bs) < h + n THEN [items |-> acc, st |-> "error"]
       ELSE Dec(SubSeq(bs, h + n + 1, Len(bs)), ver, Append(acc, SubSeq(bs, h + 1, h + n)))
Decode(bs, ver) == Dec(bs, ver, <<>>)

(* checksums as XOR-bags *)
SymDiff(A, B) == (A \ B) \cup (B \ A)
ItemSum(item, ver) == SymDiff({<<"hdr", Hdr(Len(item), ver)>>}, {<<"data", item>>})
RECURSIVE StreamSum(_, _)
StreamSum(items, ver) == IF items = <<>> THEN {} ELSE SymDiff(ItemSum(Head(items), ver), StreamSum(Tail(items), ver))

KVToBytes(k, v) == LE16(Len(k)) \o k \o v
KVKeyLen(b) == b[1] + 256 * b[2]
KVFromBytes(b) == [k |-> SubSeq(b, 3, 2 + KVKeyLen(b)), v |-> SubSeq(b, 3 + KVKeyLen(b), Len(b))]
RECURSIVE LexCmp(_, _)
LexCmp(a, b) == IF a = <<>> /\ b = <<>> THEN 0 ELSE IF a = <<>> THEN -1 ELSE IF b = <<>> THEN 1
                ELSE IF Head(a) < Head(b) THEN -1 ELSE IF Head(a) > Head(b) THEN 1 ELSE LexCmp(Tail(a), Tail(b))
CompareKV(a, b) == LexCmp(KVFromBytes(a).k, KVFromBytes(b).k)

(* ---- exhaustive small-scope check (M1): evaluated once by TLC on a one-state behaviour ---- *)
CONSTANTS Alphabet, MaxItemLen, MaxItems
VARIABLE x
FInit == x = 0
FSpec == FInit /\ [][FALSE]_x
RECURSIVE SeqsUpTo(_, _)
SeqsUpTo(S, n) == IF n = 0 THEN {<<>>} ELSE LET P == SeqsUpTo(S, n - 1) IN P \cup {Append(s, e) : s \in {p \in P : Len(p) = n - 1}, e \in S}
ItemsSet == SeqsUpTo(Alphabet, MaxItemLen) \ {<<>>}
Streams == SeqsUpTo(ItemsSet, MaxItems)
C19_RoundTrip == \A ver \in {0, 1} : \A s \in Streams :
                    LET d == Decode(Encode(s, ver), ver) IN d.st = "eos" /\ d.items = s
C19_Truncation == \A ver \in {0, 1} : \A s \in Streams :     \* every proper prefix of a stream is detected or decodes a prefix
                    LET e == Encode(s, ver) IN
                    \A n \in 0..(Len(e) - 1) : LET d == Decode(SubSeq(e, 1, n), ver) IN d.st = "error"
C19_Checksum == \A ver \in {0, 1} : \A s \in Streams : StreamSum(Decode(Encode(s, ver), ver).items, ver) = StreamSum(s, ver)
C19_KV == \A k \in SeqsUpTo(Alphabet, 2), v \in SeqsUpTo(Alphabet, 2) :
             KVFromBytes(KVToBytes(k, v)) = [k |-> k, v |-> v]
C19_CompareKV == \A k1 \in SeqsUpTo(Alphabet, 2), k2 \in SeqsUpTo(Alphabet, 2), v1 \in SeqsUpTo(Alphabet, 1), v2 \in SeqsUpTo(Alphabet, 1) :
             CompareKV(KVToBytes(k1, v1), KVToBytes(k2, v2)) = LexCmp(k1, k2)
=============================================================================
