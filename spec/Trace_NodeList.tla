------------------------- MODULE Trace_NodeList -------------------------
EXTENDS NodeList, Json, TLCExt
VARIABLES l, bad
tvars == <<lvars, l, bad>>
TLog == ndJsonDeserialize("trace.ndjson")
Ev == TLog[l]
N == Len(TLog)
First(cs) == LET F == {i \in 1..Len(cs) : ~cs[i][1]} IN
             IF F = {} THEN "" ELSE cs[CHOOSE i \in F : \A j \in F : i <= j][2]
Note(old, new, tag) == IF old # "" THEN old
                       ELSE IF new # "" /\ PrintT(<<tag, l, new>>) THEN new ELSE new
P(x) == <<x[1], x[2]>>
Obs(s) == << <<Ev.keys = KeysOf(s), "C20:NodeList.Keys differs from list order">>,
             <<P(Ev.head) = (IF s = <<>> THEN <<0, 0>> ELSE s[1]), "C20:NodeList.Head differs">>,
             <<Len(Ev.walk) = Len(s) /\ \A i \in 1..Len(s) : P(Ev.walk[i]) = s[i], "C20:NodeList link chain differs">> >>
TInit == l = 2 /\ bad = "" /\ TLog[1].e = "LInit" /\ LInit
TReset == l <= N /\ Ev.e = "LInit" /\ lst' = <<>> /\ nops' = 0 /\ l' = l + 1 /\ UNCHANGED bad
TAdd == /\ l <= N /\ Ev.e = "LAdd" /\ l' = l + 1 /\ Add(<<Ev.k, Ev.c>>) /\ nops' = nops + 1
        /\ bad' = Note(bad, First(Obs(lst')), "BAD")
TRemove == /\ l <= N /\ Ev.e = "LRemove" /\ l' = l + 1 /\ Remove(Ev.k) /\ nops' = nops + 1
           /\ bad' = Note(bad, First(<< <<P(Ev.ret) = RemoveRes(Ev.k), "C20:NodeList.Remove returned wrong node">> >> \o Obs(lst')), "BAD")
(* a panic raised by a legal call sequence is behaviour of the real code (driver: guarded()) *)
TPanic == /\ l <= N /\ Ev.e = "Panic" /\ l' = l + 1 /\ UNCHANGED lvars
          /\ bad' = Note(bad, "C20:the call panicked: " \o Ev.msg \o " (" \o Ev.where \o ")", "BAD")
TDone == l = N + 1 /\ UNCHANGED tvars
TNext == TReset \/ TAdd \/ TRemove \/ TPanic \/ TDone
TSpec == TInit /\ [][TNext]_tvars
Good == bad = ""
=============================================================================
