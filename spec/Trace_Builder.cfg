SPECIFICATION TSpec
CONSTANTS
  NSeg = 6
  MaxItems = 48
  MaxLvl = 32
INVARIANT Good
CHECK_DEADLOCK TRUE
