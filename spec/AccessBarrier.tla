---------------------------- MODULE AccessBarrier ----------------------------
(* skiplist/access_barrier.go, one action per atomic operation.  The label of a process (pc) is the
   verif yield point at which the real goroutine is parked: the action taken from label L is the code
   between yield point L and the next one.

     idle  between two calls (the harness' own yield point)
     A1 load session pointer      A2 increment live count (back off into R1 if the session is closed)
     R1 decrement live count      R2 take the closed latch     R3 queue the session (freeq insert)
     R4 destructor try-lock       C1 SeekFirst on the queue    C2 seqno check, freeSeqno++, destructor
     C3 delete the queue node     C4 iterator Next             R5 release the try-lock
     F0 FlushSession: Lock        F1 swap in a new session, tag the old one   F2 add OFF+1, then Release
     F3 Unlock

   The real offset (MaxInt32/2) is replaced by OFF = 100; the arithmetic is kept (> OFF, = OFF, = OFF-1).
   The freeq iterator is an atomic read of the smallest queued seqno greater than the cursor, which is
   what a linearizable skiplist iterator observes (C13/C15).

   FIXD5 = FALSE is the pinned commit (lost wake-up between the end of doCleanup and the release of the
   try-lock, C17); TRUE re-checks the queue after releasing the try-lock (label R6).

   C16: InOrderOnce, WaitsForEarlier, NoHolderInDestructed, no Assert (the code's panics).
   C17: NothingPending. *)
EXTENDS Integers, Sequences, FiniteSets, TLC

CONSTANTS Acc,       \* processes that may Acquire/Release (nested up to MaxHold tokens)
          Fl,        \* processes that may FlushSession (a process may be in both sets)
          MaxAcq, MaxFl, MaxHold, FIXD5

OFF == 100
Procs == Acc \cup Fl
MaxSess == 1 + Cardinality(Fl) * MaxFl
Sess == 1..MaxSess

VARIABLES cur, nalloc,            \* current session, number of sessions allocated
          live, latch, seq,       \* per session: liveCount, closed latch, seqno
          activeSeq, freeSeq,
          destr, mutex, freeq,    \* destructor try-lock, flush mutex, queued sessions
          pc, bs, it, ret,        \* per process: label, session in hand, queue cursor, continuation
          nacq, nfl,              \* per process: calls made so far (bounds the model)
          held,                   \* ghost: per process the stack of tokens [id, sess] it holds
          ntok, released,         \* ghost: token instances handed out / released
          heldAtCall,             \* ghost: session -> token ids held when the flush closing it was called
          flushTok,               \* ghost: per process, tokens held when its pending flush was called
          destructed, nflushcalls \* ghost: sessions in destruction order; FlushSession calls so far

vars == <<cur, nalloc, live, latch, seq, activeSeq, freeSeq, destr, mutex, freeq, pc, bs, it, ret, nacq, nfl,
          held, ntok, released, heldAtCall, flushTok, destructed, nflushcalls>>
shared == <<cur, nalloc, live, latch, seq, activeSeq, freeSeq, destr, mutex, freeq>>
ghost == <<held, ntok, released, heldAtCall, flushTok, destructed, nflushcalls>>

Init ==
  /\ cur = 1 /\ nalloc = 1
  /\ live = [s \in Sess |-> 0] /\ latch = [s \in Sess |-> 0] /\ seq = [s \in Sess |-> 0]
  /\ activeSeq = 0 /\ freeSeq = 0 /\ destr = 0 /\ mutex = 0 /\ freeq = {}
  /\ pc = [p \in Procs |-> "idle"] /\ bs = [p \in Procs |-> 0]
  /\ it = [p \in Procs |-> 0] /\ ret = [p \in Procs |-> "idle"]
  /\ nacq = [p \in Procs |-> 0] /\ nfl = [p \in Procs |-> 0]
  /\ held = [p \in Procs |-> <<>>] /\ ntok = 0 /\ released = {}
  /\ heldAtCall = [s \in Sess |-> {}] /\ flushTok = [p \in Procs |-> {}]
  /\ destructed = <<>> /\ nflushcalls = 0

Go(p, l) == pc' = [pc EXCEPT ![p] = l]
AllTokens == UNION {{held[q][i].id : i \in 1..Len(held[q])} : q \in Procs}

(* ---- Acquire -- access_barrier.go:152-166 ---- *)
AcqStart(p) == /\ p \in Acc /\ pc[p] = "idle" /\ nacq[p] < MaxAcq /\ Len(held[p]) < MaxHold
               /\ nacq' = [nacq EXCEPT ![p] = @ + 1] /\ ret' = [ret EXCEPT ![p] = "acq"] /\ Go(p, "A1")
               /\ UNCHANGED <<shared, bs, it, nfl, ghost>>
A1(p) == /\ pc[p] = "A1" /\ bs' = [bs EXCEPT ![p] = cur] /\ Go(p, "A2")
         /\ UNCHANGED <<shared, it, ret, nacq, nfl, ghost>>
A2(p) == /\ pc[p] = "A2" /\ live' = [live EXCEPT ![bs[p]] = @ + 1]
         /\ IF live[bs[p]] + 1 > OFF
              THEN /\ Go(p, "R1") /\ ret' = [ret EXCEPT ![p] = "A1"] /\ UNCHANGED <<held, ntok>>
              ELSE /\ Go(p, "idle") /\ ret' = ret
                   /\ held' = [held EXCEPT ![p] = Append(@, [id |-> ntok + 1, sess |-> bs[p]])] /\ ntok' = ntok + 1
         /\ UNCHANGED <<cur, nalloc, latch, seq, activeSeq, freeSeq, destr, mutex, freeq, bs, it, nacq, nfl,
                        released, heldAtCall, flushTok, destructed, nflushcalls>>

(* ---- Release -- access_barrier.go:168-192 ---- *)
RelStart(p) == /\ p \in Acc /\ pc[p] = "idle" /\ held[p] # <<>>
               /\ LET t == held[p][Len(held[p])] IN
                    /\ bs' = [bs EXCEPT ![p] = t.sess]
                    /\ released' = released \cup {t.id}
               /\ held' = [held EXCEPT ![p] = SubSeq(@, 1, Len(@) - 1)]
               /\ ret' = [ret EXCEPT ![p] = "idle"] /\ Go(p, "R1")
               /\ UNCHANGED <<shared, it, nacq, nfl, ntok, heldAtCall, flushTok, destructed, nflushcalls>>
R1(p) == /\ pc[p] = "R1" /\ live' = [live EXCEPT ![bs[p]] = @ - 1]
         /\ Assert(live[bs[p]] - 1 >= 0 /\ live[bs[p]] - 1 # OFF - 1, "panic: Unsafe memory reclamation detected")
         /\ IF live[bs[p]] - 1 = OFF THEN Go(p, "R2") ELSE Go(p, ret[p])
         /\ UNCHANGED <<cur, nalloc, latch, seq, activeSeq, freeSeq, destr, mutex, freeq, bs, it, ret, nacq, nfl, ghost>>
R2(p) == /\ pc[p] = "R2" /\ latch' = [latch EXCEPT ![bs[p]] = @ + 1]
         /\ IF latch[bs[p]] + 1 = 1 THEN Go(p, "R3") ELSE Go(p, ret[p])
         /\ UNCHANGED <<cur, nalloc, live, seq, activeSeq, freeSeq, destr, mutex, freeq, bs, it, ret, nacq, nfl, ghost>>
R3(p) == /\ pc[p] = "R3" /\ Assert(bs[p] \notin freeq, "panic: unable to insert barrier session into free list")
         /\ freeq' = freeq \cup {bs[p]} /\ Go(p, "R4")
         /\ UNCHANGED <<cur, nalloc, live, latch, seq, activeSeq, freeSeq, destr, mutex, bs, it, ret, nacq, nfl, ghost>>
R4(p) == /\ pc[p] = "R4"
         /\ IF destr = 0 THEN destr' = 1 /\ Go(p, "C1") ELSE destr' = destr /\ Go(p, ret[p])
         /\ UNCHANGED <<cur, nalloc, live, latch, seq, activeSeq, freeSeq, mutex, freeq, bs, it, ret, nacq, nfl, ghost>>

(* ---- doCleanup -- access_barrier.go:128-149 ---- *)
MinQ(after) == LET c == {s \in freeq : seq[s] > after} IN
               IF c = {} THEN 0 ELSE CHOOSE s \in c : \A t \in c : seq[s] <= seq[t]
C1(p) == /\ pc[p] = "C1" /\ it' = [it EXCEPT ![p] = MinQ(0)]
         /\ Go(p, IF MinQ(0) = 0 THEN "R5" ELSE "C2")
         /\ UNCHANGED <<shared, bs, ret, nacq, nfl, ghost>>
C2(p) == /\ pc[p] = "C2"
         /\ IF seq[it[p]] # freeSeq + 1
              THEN /\ Go(p, "R5") /\ UNCHANGED <<freeSeq, destructed>>
              ELSE /\ freeSeq' = freeSeq + 1 /\ destructed' = Append(destructed, it[p]) /\ Go(p, "C3")
         /\ UNCHANGED <<cur, nalloc, live, latch, seq, activeSeq, destr, mutex, freeq, bs, it, ret, nacq, nfl,
                        held, ntok, released, heldAtCall, flushTok, nflushcalls>>
C3(p) == /\ pc[p] = "C3" /\ freeq' = freeq \ {it[p]} /\ Go(p, "C4")
         /\ UNCHANGED <<cur, nalloc, live, latch, seq, activeSeq, freeSeq, destr, mutex, bs, it, ret, nacq, nfl, ghost>>
C4(p) == /\ pc[p] = "C4" /\ it' = [it EXCEPT ![p] = MinQ(seq[it[p]])]
         /\ Go(p, IF MinQ(seq[it[p]]) = 0 THEN "R5" ELSE "C2")
         /\ UNCHANGED <<shared, bs, ret, nacq, nfl, ghost>>
R5(p) == /\ pc[p] = "R5" /\ destr' = 0
         /\ IF FIXD5 THEN Go(p, "R6") ELSE Go(p, ret[p])
         /\ UNCHANGED <<cur, nalloc, live, latch, seq, activeSeq, freeSeq, mutex, freeq, bs, it, ret, nacq, nfl, ghost>>
R6(p) == /\ pc[p] = "R6"                                  \* repaired behaviour: re-check after unlocking
         /\ IF MinQ(0) # 0 /\ seq[MinQ(0)] = freeSeq + 1 THEN Go(p, "R4") ELSE Go(p, ret[p])
         /\ UNCHANGED <<shared, bs, it, ret, nacq, nfl, ghost>>

(* ---- FlushSession -- access_barrier.go:196-212 ---- *)
FStart(p) == /\ p \in Fl /\ pc[p] = "idle" /\ nfl[p] < MaxFl
             /\ nfl' = [nfl EXCEPT ![p] = @ + 1] /\ nflushcalls' = nflushcalls + 1
             /\ flushTok' = [flushTok EXCEPT ![p] = AllTokens]
             /\ Go(p, "F0")
             /\ UNCHANGED <<shared, bs, it, ret, nacq, held, ntok, released, heldAtCall, destructed>>
F0(p) == /\ pc[p] = "F0" /\ mutex = 0 /\ mutex' = 1 /\ Go(p, "F1")
         /\ UNCHANGED <<cur, nalloc, live, latch, seq, activeSeq, freeSeq, destr, freeq, bs, it, ret, nacq, nfl, ghost>>
F1(p) == /\ pc[p] = "F1" /\ bs' = [bs EXCEPT ![p] = cur]
         /\ heldAtCall' = [heldAtCall EXCEPT ![cur] = flushTok[p]]
         /\ cur' = nalloc + 1 /\ nalloc' = nalloc + 1
         /\ activeSeq' = activeSeq + 1 /\ seq' = [seq EXCEPT ![cur] = activeSeq + 1] /\ Go(p, "F2")
         /\ UNCHANGED <<live, latch, freeSeq, destr, mutex, freeq, it, ret, nacq, nfl,
                        held, ntok, released, flushTok, destructed, nflushcalls>>
F2(p) == /\ pc[p] = "F2" /\ live' = [live EXCEPT ![bs[p]] = @ + OFF + 1]
         /\ ret' = [ret EXCEPT ![p] = "F3"] /\ Go(p, "R1")
         /\ UNCHANGED <<cur, nalloc, latch, seq, activeSeq, freeSeq, destr, mutex, freeq, bs, it, nacq, nfl, ghost>>
F3(p) == /\ pc[p] = "F3" /\ mutex' = 0 /\ Go(p, "idle")
         /\ UNCHANGED <<cur, nalloc, live, latch, seq, activeSeq, freeSeq, destr, freeq, bs, it, ret, nacq, nfl, ghost>>

Step(p) == AcqStart(p) \/ A1(p) \/ A2(p) \/ RelStart(p) \/ R1(p) \/ R2(p) \/ R3(p) \/ R4(p)
           \/ C1(p) \/ C2(p) \/ C3(p) \/ C4(p) \/ R5(p) \/ R6(p) \/ FStart(p) \/ F0(p) \/ F1(p) \/ F2(p) \/ F3(p)
Next == \E p \in Procs : Step(p)
Spec == Init /\ [][Next]_vars

(* ---- properties ---- *)
Quiescent == \A p \in Procs : pc[p] = "idle" /\ held[p] = <<>>
(* C16: destructors run in flush order, once each *)
InOrderOnce == \A i \in 1..Len(destructed) : seq[destructed[i]] = i
(* C16: an accessor never holds a token of a session that is being / has been destructed *)
NoHolderInDestructed ==
  \A p \in Procs : \A j \in 1..Len(held[p]) : \A i \in 1..Len(destructed) : destructed[i] # held[p][j].sess
(* C16: the destructor of a flush waits for every accessor that had acquired before the flush was called *)
WaitsForEarlier == \A i \in 1..Len(destructed) : heldAtCall[destructed[i]] \subseteq released
(* C17: at quiescence every flush has been destructed *)
NothingPending == Quiescent => Len(destructed) = nflushcalls

(* ---- liveness (growth beyond the listed invariants) ----
   Fairness: a goroutine inside a call keeps running, and every token is eventually released; nobody is obliged
   to start a new Acquire or FlushSession.  Under it every call returns, and the destructor of every flushed
   session eventually runs -- without any further flush (the "eventually" reading of C17). *)
InCall(p) == pc[p] # "idle" /\ Step(p)
Fair == \A p \in Procs : WF_vars(InCall(p)) /\ WF_vars(RelStart(p))
LiveSpec == Spec /\ Fair
Destructed(s) == \E i \in 1..Len(destructed) : destructed[i] = s
EveryFlushDestructed == \A s \in Sess : (seq[s] # 0) ~> Destructed(s)
EveryCallReturns == \A p \in Procs : (pc[p] # "idle") ~> (pc[p] = "idle")
=============================================================================
