SPECIFICATION Spec
CONSTANTS
  Procs = {p1, p2}
  Keys = {1, 2}
  MaxOps = 2
  MaxNodes = 3
  Top = 1
  IterProcs = {}
  InFlightDelN = FALSE
  FIXK1 = FALSE
INVARIANT NoDupKeys
INVARIANT DeleteOnce
INVARIANT QStruct
INVARIANT NoMarkedLinked
CHECK_DEADLOCK FALSE
