SPECIFICATION Spec
CONSTANTS
  Workers = {w1, w2}
  NItems = 2
  MM = TRUE
INVARIANT NoSendOnClosed
INVARIANT BackupOutcome
INVARIANT OkMeansHandshakesDone
CHECK_DEADLOCK TRUE
