SPECIFICATION LSpec
CONSTANTS
  LKeys = {1, 2}
  Copies = {1, 2}
  MaxOps = 6
INVARIANT NoDupNodes
CHECK_DEADLOCK FALSE
