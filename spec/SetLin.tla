------------------------------- MODULE SetLin -------------------------------
(* Linearizability of an ordered set from a call/return log (C13 for the skiplist package, C03 for nitro
   writers).  Events, in log order (gate-serialised, or ordered by the logger's mutex in free-running
   mode: Call is logged before the call starts, Ret after it returned):
      Call(p, op, k, n)   op in {ins, del, look, deln};  n = id of the node created (ins) / targeted (deln)
      Ret(p, ok)
      Walk(items)         a scan of the structure (or of a new nitro snapshot, with Count) while no call is in progress
      RScan(sn, items)    a concurrent reader's scan of an open nitro snapshot: must equal that snapshot's Walk
      Phys(items, ...)    nitro: the linked nodes after every snapshot was closed and a collection pass forced
   The state change of a call is the internal step Lin(p) somewhere between its Call and its Ret.  The
   log is accepted iff SOME placement of the Lin steps explains every result and every walk: TLC searches
   them all.  Accepted == the end of the log is reachable; the runner checks the invariant NotAccepted
   and treats its violation as acceptance, and an exhausted search that never got past line l as a
   linearizability violation at line l.

   Set semantics: ins succeeds iff no equal key is present; del iff one is (and removes that node);
   deln(n) iff node n is present (exactly one caller can win); look reports presence. *)
EXTENDS Integers, Sequences, FiniteSets, TLC, Json, TLCExt
VARIABLES l, set, pend, views
lvars == <<l, set, pend, views>>
TLog == ndJsonDeserialize("trace.ndjson")
Ev == TLog[l]
N == Len(TLog)
NoOp == [op |-> "none", k |-> 0, n |-> 0, st |-> "idle", res |-> FALSE]
KeysIn(S) == {x[1] : x \in S}                 \* set elements are <<key, node id>>
TInit == TLCSet(1, 1) /\ l = 1 /\ set = {} /\ pend = [p \in {} |-> NoOp] /\ views = <<>>
Mark == TLCSet(1, IF TLCGet(1) < l' THEN l' ELSE TLCGet(1))
Step(e) == l <= N /\ Ev.e = e /\ l' = l + 1
TReset == /\ l <= N /\ Ev.e \in {"SlInit", "WrInit"} /\ l' = l + 1
          /\ set' = {} /\ pend' = [p \in {Ev.procs[i] : i \in 1..Len(Ev.procs)} |-> NoOp] /\ views' = <<>>
TSkip == /\ l <= N /\ Ev.e \in {"S", "SlEnd", "Quiesce", "WrEnd", "M", "Closed", "Fault", "ItCall", "ItPos"} /\ l' = l + 1 /\ UNCHANGED <<set, pend, views>>
TCall == /\ Step("Call") /\ pend[Ev.p].st = "idle"
         /\ pend' = [pend EXCEPT ![Ev.p] = [op |-> Ev.op, k |-> Ev.k, n |-> Ev.n, st |-> "called", res |-> FALSE]]
         /\ UNCHANGED <<set, views>>
Lin(p) == /\ pend[p].st = "called" /\ UNCHANGED <<l, views>>
          /\ LET o == pend[p] IN
             CASE o.op = "ins" -> LET ok == o.k \notin KeysIn(set) IN
                                  /\ set' = (IF ok THEN set \cup {<<o.k, o.n>>} ELSE set)
                                  /\ pend' = [pend EXCEPT ![p].st = "lin", ![p].res = ok]
               [] o.op = "del" -> LET ok == o.k \in KeysIn(set) IN
                                  /\ set' = {x \in set : x[1] # o.k}
                                  /\ pend' = [pend EXCEPT ![p].st = "lin", ![p].res = ok]
               [] o.op = "deln" -> LET ok == <<o.k, o.n>> \in set IN
                                  /\ set' = set \ {<<o.k, o.n>>}
                                  /\ pend' = [pend EXCEPT ![p].st = "lin", ![p].res = ok]
               [] o.op = "look" -> /\ set' = set
                                   /\ pend' = [pend EXCEPT ![p].st = "lin", ![p].res = (o.k \in KeysIn(set))]
TRet == /\ Step("Ret") /\ pend[Ev.p].st = "lin" /\ pend[Ev.p].res = Ev.ok
        /\ pend' = [pend EXCEPT ![Ev.p] = NoOp] /\ UNCHANGED <<set, views>>
RECURSIVE SortSet(_)
SortSet(S) == IF S = {} THEN <<>> ELSE LET m == CHOOSE x \in S : \A y \in S : x <= y IN <<m>> \o SortSet(S \ {m})
AllIdle == \A p \in DOMAIN pend : pend[p].st = "idle"
RECURSIVE SortPairs(_)
SortPairs(S) == IF S = {} THEN <<>> ELSE LET m == CHOOSE x \in S : \A y \in S : x[1] <= y[1] IN <<m>> \o SortPairs(S \ {m})
(* a scan at quiescence: keys only (skiplist driver) or <<key, creating operation>> pairs (nitro driver) *)
ItemsMatch == IF "count" \in DOMAIN Ev \/ Ev.e = "Phys"
                THEN Ev.items = SortPairs(set)
                ELSE Ev.items = SortSet(KeysIn(set)) /\ Cardinality(set) = Len(Ev.items)
TWalk == /\ Step("Walk") /\ AllIdle /\ ItemsMatch
         /\ ("count" \in DOMAIN Ev => Ev.count = Cardinality(set) /\ Ev.itemscount = Cardinality(set))
         /\ views' = (IF "sn" \in DOMAIN Ev THEN [s \in (DOMAIN views) \cup {Ev.sn} |-> IF s = Ev.sn THEN Ev.items ELSE views[s]] ELSE views)
         /\ UNCHANGED <<set, pend>>
(* churn scenarios: the pinned snapshot's content is recorded without a call/return history *)
TView == /\ Step("View") /\ Ev.count = Len(Ev.items)
         /\ views' = [s \in (DOMAIN views) \cup {Ev.sn} |-> IF s = Ev.sn THEN Ev.items ELSE views[s]] /\ UNCHANGED <<set, pend>>
(* a reader's scan / visit of an open snapshot, concurrent with writers: exactly the snapshot's content (C01) *)
TRScan == /\ Step("RScan") /\ Ev.sn \in DOMAIN views /\ Ev.items = views[Ev.sn] /\ UNCHANGED <<set, pend, views>>
(* a backup of an open snapshot taken while writers, readers and GC were running, restored into a fresh
   instance: exactly that snapshot's content and Count (C05) *)
TRestore == /\ Step("Restore") /\ Ev.stored /\ Ev.loaded /\ Ev.sn \in DOMAIN views
            /\ Ev.items = views[Ev.sn] /\ Ev.count = Len(views[Ev.sn]) /\ UNCHANGED <<set, pend, views>>
(* every snapshot closed and a collection pass forced: exactly the live items remain linked (C06), statistics agree *)
TPhys == /\ Step("Phys") /\ AllIdle /\ ItemsMatch
         /\ Ev.marked = 0 /\ Ev.softdel = 0 /\ Ev.nodes = Len(Ev.items) /\ Ev.statmem = Ev.walkmem
         /\ UNCHANGED <<set, pend, views>>
TDone == l = N + 1 /\ UNCHANGED lvars
(* Mark comes last: the high-water register then names the first line that no explored state could consume *)
TNext == (TReset \/ TSkip \/ TCall \/ (\E p \in DOMAIN pend : Lin(p)) \/ TRet \/ TWalk \/ TView \/ TRScan \/ TRestore \/ TPhys \/ TDone) /\ Mark
TSpec == TInit /\ [][TNext]_lvars
NotAccepted == l # N + 1
Post == PrintT(<<"HIGHWATER", TLCGet(1)>>)
=============================================================================
