SPECIFICATION TSpec
CONSTANTS
  Keys = {0,1,2,3,4,5,6,7,8,9,10,11,12,13,14,15,16,17,18,19,20}
  Vals = {0,1,2,3}
  Writers = {1,2,3}
  MaxSn = 64
  MaxCnt = 1000000
  MaxRef = 1000000
  Rates = {0}
  Iters = {1,2}
  MaxPivots = 0
  FIXD1 = TRUE
  FIXD2 = TRUE
INVARIANT Good
CHECK_DEADLOCK TRUE
