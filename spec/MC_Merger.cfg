SPECIFICATION MSpec
CONSTANTS
  NLists = 2
  Vals = {1, 2, 3}
  MaxOps = 5
  FIXD8 = TRUE
INVARIANT C18_MergeExact
INVARIANT C18_NoCrash
CHECK_DEADLOCK FALSE
