SPECIFICATION Spec
CONSTANTS
  Acc = {a1, a2}
  Fl = {f1, f2}
  MaxAcq = 2
  MaxFl = 1
  MaxHold = 1
  FIXD5 = TRUE
INVARIANT InOrderOnce
INVARIANT NoHolderInDestructed
INVARIANT WaitsForEarlier
INVARIANT NothingPending
CHECK_DEADLOCK FALSE
