SPECIFICATION Spec
CONSTANTS
  Writers = {1, 2}
  MaxOps = 2
  MaxNodes = 3
  OldLive = TRUE
  FIXD3 = TRUE
INVARIANT C03_DeleteOnce
INVARIANT C03_AtMostOneLive
INVARIANT C04_NoUAF
INVARIANT C04_NoDoubleFree
INVARIANT C04_FreedImpliesUnlinked
INVARIANT C06_GcListsIntact
INVARIANT C07_AllFreedOnceAtClose
CHECK_DEADLOCK FALSE
