----------------------------- MODULE NitroDelta -----------------------------
(* StoreToDisk with delta interleaving, on top of the NitroMVCC store (nitro.go StoreToDisk, changeDeltaWrState,
   doCheckpoint, doDeltaWrite, collectionWorker).

   Without delta interleaving a backup pins its snapshot for the whole scan.  With it, the backup
     1. switches every collection worker to "active" with the snapshot's number (a handshake with each worker,
        served between two garbage lists),
     2. closes its handle of the snapshot -- from here on nothing protects the snapshot's items from collection --,
     3. scans the store with a placeholder snapshot of the same number (an item is delivered iff it is still
        linked and born <= sn < dead),
     4. switches the workers back and writes the manifests;
   meanwhile a worker that unlinks a version which the snapshot sees (born <= sn < dead) first appends it to
   its delta file.  LoadFromDisk builds the store from the shard files and then Puts the delta items (an item
   already present is rejected).

   The argument checked here: every item of the snapshot's view is, at the moment the scan passes its position,
   either still linked (and delivered) or already unlinked -- and then it was unlinked after step 1, because the
   snapshot was open until step 2 and a version is only collected after every snapshot that sees it is closed.
   So  scanned \cup delta = view,  for every interleaving of the scan with writers, snapshot creation, Close calls
   in any order and the collection workers.

   DELTAFIRST = TRUE is the code's order (1 before 2); FALSE swaps them (the handle is closed before the workers are
   switched), which loses items -- kept to show that the model is sensitive to the order.

   The scan is a single cursor (the partition into shards is C10's matter, NitroMVCC!C10_VisitPartition). *)
EXTENDS NitroMVCC

CONSTANT DELTAFIRST

VARIABLE bk     \* [st, sn, cur, scanned, delta, active, view]

dvars == <<vars, bk>>
START == [k |-> -1, born |-> 0]
Idle == [st |-> "idle", sn |-> 0, cur |-> START, scanned |-> <<>>, delta |-> {}, active |-> FALSE, view |-> <<>>]

DInit == Init /\ bk = Idle

(* versions that the workers append to the delta files when they unlink the lists in U *)
DeltaItems(U) == {KV(x) : x \in {y \in vers : (\E s \in U : Pos(y) \in snaps[s].gc) /\ y.born <= bk.sn /\ y.dead > bk.sn}}
Unlinking(U) == bk' = (IF bk.active THEN [bk EXCEPT !.delta = @ \cup DeltaItems(U)] ELSE bk)

(* ---- the backup ---- *)
BkActivate(s) ==          \* step 1 (or, with DELTAFIRST = FALSE, step 2 first)
  /\ bk.st = "idle" /\ snaps[s].st = "open" /\ snaps[s].ref > ItersOn(s)
  /\ IF DELTAFIRST
       THEN /\ bk' = [Idle EXCEPT !.st = "activated", !.sn = s, !.active = TRUE, !.view = view[s]]
            /\ UNCHANGED vars
       ELSE /\ bk' = [Idle EXCEPT !.st = "released", !.sn = s, !.view = view[s]]
            /\ CloseSnap(s)
BkRelease ==              \* step 2: snap.Close() -- may retire the snapshot and release garbage lists
  /\ bk.st = "activated"
  /\ CloseSnap(bk.sn)
  /\ bk' = [bk EXCEPT !.st = "scan"]
BkActivateLate ==         \* DELTAFIRST = FALSE: the workers are switched only now
  /\ bk.st = "released"
  /\ bk' = [bk EXCEPT !.st = "scan", !.active = TRUE]
  /\ UNCHANGED vars
BkStep ==                 \* step 3: the placeholder snapshot's iterator moves to the next visible version
  /\ bk.st = "scan"
  /\ LET p0 == IF bk.cur = START THEN FirstGE(vers, START) ELSE FirstGT(vers, bk.cur)
         p == Skip(vers, p0, bk.sn) IN
       IF p = END
         THEN bk' = [bk EXCEPT !.st = "flush"]
         ELSE bk' = [bk EXCEPT !.cur = p, !.scanned = Append(@, KV(At(vers, p)))]
  /\ UNCHANGED vars
BkEnd ==                  \* step 4
  /\ bk.st = "flush"
  /\ bk' = [bk EXCEPT !.st = "done", !.active = FALSE]
  /\ UNCHANGED vars
BkForget == bk.st = "done" /\ bk' = Idle /\ UNCHANGED vars

(* ---- the store's own actions, with the workers' delta writes ---- *)
DGCUnlink(s) == GCUnlink(s) /\ Unlinking({s})
Other ==
  /\ \/ \E w \in Writers, k \in Keys, v \in Vals : PutB(w, k, v)
     \/ \E w \in Writers, k \in Keys : DeleteB(w, k)
     \/ NewSnapshot
     \/ \E s \in 1..MaxSn : Open(s) \/ CloseSnap(s)
  /\ UNCHANGED bk

DNext == \/ Other
         \/ \E s \in 1..MaxSn : DGCUnlink(s) \/ BkActivate(s)
         \/ BkRelease \/ BkActivateLate \/ BkStep \/ BkEnd \/ BkForget
DSpec == DInit /\ [][DNext]_dvars

(* ---- properties (C05 with delta interleaving) ---- *)
SeqSet(q) == {q[i] : i \in 1..Len(q)}
ScanPlusDeltaIsView == bk.st = "done" => SeqSet(bk.scanned) \cup bk.delta = SeqSet(bk.view)
ScanAscending == \A i \in 1..(Len(bk.scanned) - 1) : bk.scanned[i].k < bk.scanned[i + 1].k
ScanOnlyView == SeqSet(bk.scanned) \subseteq SeqSet(bk.view) /\ bk.delta \subseteq SeqSet(bk.view)
(* what LoadFromDisk rebuilds: the shard items, then the delta items whose key is not present yet *)
Restored == SeqSet(bk.scanned) \cup {e \in bk.delta : \A i \in 1..Len(bk.scanned) : bk.scanned[i].k # e.k}
RestoreExact == bk.st = "done" => Restored = SeqSet(bk.view)
=============================================================================
