SPECIFICATION Spec
CONSTANTS
  Keys = {1, 2}
  Vals = {1}
  Writers = {w1}
  MaxCnt = 2
  MaxRef = 2
  MaxSn = 2
  Rates = {0, 1}
  Iters = {1}
  MaxPivots = 0
  FIXD1 = TRUE
  FIXD2 = TRUE
INVARIANT TypeOK
INVARIANT C01_SnapshotImmutable
INVARIANT C02_LiveMatches
INVARIANT C06_Retained
INVARIANT C08_RefNonNeg
INVARIANT C09_IterExact
CHECK_DEADLOCK FALSE
