SPECIFICATION TSpec
CONSTANTS
  Acc = {"a1", "a2", "a3", "a4", "f1", "f2", "f3"}
  Fl = {"f1", "f2", "f3"}
  MaxAcq = 1000000
  MaxFl = 8
  MaxHold = 1000000
  FIXD5 = TRUE
INVARIANT NoDrift
CHECK_DEADLOCK TRUE
