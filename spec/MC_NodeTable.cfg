SPECIFICATION Spec
CONSTANTS
  Keys = {1, 2, 3}
  Buckets = {1, 2}
  Gens = {1, 2}
  MaxOps = 5
INVARIANT Refines
INVARIANT Shape
CHECK_DEADLOCK FALSE
