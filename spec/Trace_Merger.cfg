SPECIFICATION TSpec
CONSTANTS
  NLists = 4
  Vals = {}
  MaxOps = 0
  FIXD8 = TRUE
INVARIANT Good
CHECK_DEADLOCK TRUE
