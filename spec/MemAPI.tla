------------------------------- MODULE MemAPI -------------------------------
(* The allocator contract of user-managed memory (C04 double/invalid free, C07 exactly-once release):
   events M(kind, id) are emitted by the harness allocator under its lock, Closed after Nitro.Close returned,
   Fault when the process died on an access to a freed block (guard pages / poison), attributed by the parent.
     - a block is freed only if it was allocated and not yet freed;
     - after Close every block handed out has been returned exactly once. *)
EXTENDS Integers, Sequences, FiniteSets, TLC, Json, TLCExt
VARIABLES l, bad, allocd, freed
TLog == ndJsonDeserialize("trace.ndjson")
Ev == TLog[l]
N == Len(TLog)
First(cs) == LET F == {i \in 1..Len(cs) : ~cs[i][1]} IN
             IF F = {} THEN "" ELSE cs[CHOOSE i \in F : \A j \in F : i <= j][2]
Note(old, new, tag) == IF old # "" THEN old
                       ELSE IF new # "" /\ PrintT(<<tag, l, new>>) THEN new ELSE new
TInit == l = 1 /\ bad = "" /\ allocd = {} /\ freed = {}
TReset == l <= N /\ Ev.e \in {"WrInit", "MvInit"} /\ l' = l + 1 /\ allocd' = {} /\ freed' = {} /\ UNCHANGED bad
TM == /\ l <= N /\ Ev.e = "M" /\ l' = l + 1
      /\ allocd' = (IF Ev.k = "malloc" THEN allocd \cup {Ev.id} ELSE allocd)
      /\ freed' = (IF Ev.k = "free" THEN freed \cup {Ev.id} ELSE freed)
      /\ bad' = Note(bad, First(<<
           <<Ev.k # "doublefree", "C04:a block was returned to the allocator twice">>,
           <<Ev.k # "badfree", "C07:a pointer that was never allocated was returned to the allocator">>,
           <<Ev.k = "free" => Ev.id \in allocd /\ Ev.id \notin freed, "C04:free of a block that is not live">>,
           <<Ev.k = "malloc" => Ev.id \notin allocd, "harness: block id reused">> >>), "BAD")
TClosed == /\ l <= N /\ Ev.e = "Closed" /\ l' = l + 1 /\ UNCHANGED <<allocd, freed>>
           /\ bad' = Note(bad, First(<<
                <<Ev.errs = <<>>, "C04:the allocator recorded a double or invalid free">>,
                <<Ev.live = 0 /\ Ev.mallocs = Ev.frees, "C07:blocks are still allocated after Close returned (leak)">> >>), "BAD")
TFault == /\ l <= N /\ Ev.e = "Fault" /\ l' = l + 1 /\ UNCHANGED <<allocd, freed>>
          /\ bad' = Note(bad, "C04:" \o Ev.msg, "BAD")
TSkip == l <= N /\ Ev.e \notin {"WrInit", "MvInit", "M", "Closed", "Fault"} /\ l' = l + 1 /\ UNCHANGED <<bad, allocd, freed>>
TDone == l = N + 1 /\ UNCHANGED <<l, bad, allocd, freed>>
TSpec == TInit /\ [][TReset \/ TM \/ TClosed \/ TFault \/ TSkip \/ TDone]_<<l, bad, allocd, freed>>
Good == bad = ""
=============================================================================
