------------------------- MODULE Trace_NitroMVCC -------------------------
(* Trace validation of the real nitro store against NitroMVCC.

   Every line of trace.ndjson is one public call (or one worker step released through the verif
   gate) executed by the Go harness on the code built from /repo, with its result and the
   observations taken right after it.  Each trace action applies the corresponding NitroMVCC
   action and compares
     - the logged results and observations with the model's ABSTRACT state (live, view, lastGCSn):
       a mismatch sets `bad` to a message tagged with the property it violates (the verdict);
     - the logged physical chain with the model's concrete state: a mismatch only sets `drift`
       (binding evidence; a behaviour-preserving refactoring must not raise an alarm). *)
EXTENDS NitroMVCC, Json, TLCExt

VARIABLES l, bad, drift, stored,
          dx      \* the backup in progress: [on, delta, sn, exp]; exp = items of the stored view that collection workers
                  \* unlinked while delta interleaving was active (doDeltaWrite must have written exactly these)
tvars == <<vars, l, bad, drift, stored, dx>>
NoDx == [on |-> FALSE, delta |-> FALSE, sn |-> 0, exp |-> {}]

TLog == ndJsonDeserialize("trace.ndjson")
Ev == TLog[l]
N == Len(TLog)

First(cs) == LET F == {i \in 1..Len(cs) : ~cs[i][1]} IN
             IF F = {} THEN "" ELSE cs[CHOOSE i \in F : \A j \in F : i <= j][2]
Note(old, new, tag) == IF old # "" THEN old
                       ELSE IF new # "" /\ PrintT(<<tag, l, new>>) THEN new ELSE new
Rng(q) == {q[i] : i \in 1..Len(q)}
PKV(x) == [k |-> x[1], v |-> x[2]]
ToKVSeq(q) == [i \in 1..Len(q) |-> PKV(q[i])]
PhysVer(x) == [k |-> x[1], v |-> x[2], born |-> x[3], dead |-> x[4]]
PhysSet == {PhysVer(Ev.phys[i]) : i \in 1..Len(Ev.phys)}
StrictAsc(q) == \A i \in 1..(Len(q) - 1) : q[i].k < q[i + 1].k

(* ---- observations taken after every event, judged against the primed (post) state ---- *)
ScanChecks ==
  IF "scans" \notin DOMAIN Ev THEN <<>> ELSE
  << <<\A i \in 1..Len(Ev.scans) : Ev.scans[i][3] = (snaps'[Ev.scans[i][1]].st = "open"),
       "C08:NewIterator on a snapshot the caller still holds returned nil (or succeeded on a retired one)">>,
     <<\A i \in 1..Len(Ev.scans) : Ev.scans[i][3] => ToKVSeq(Ev.scans[i][4]) = view'[Ev.scans[i][1]],
       "C01:full scan of an open snapshot differs from the items live at its creation">>,
     <<\A i \in 1..Len(Ev.scans) : Ev.scans[i][3] => Ev.scans[i][2] = Len(view'[Ev.scans[i][1]]),
       "C01:Count() of an open snapshot differs from the number of items live at its creation">> >>

OpenS(sn) == {s \in 1..MaxSn : sn[s].st = "open"}
PhysChecks ==
  << <<{KV(x) : x \in {y \in PhysSet : y.dead = 0}} = live',
       "C02:live items linked in the structure differ from the reference set">>,
     <<\A s \in OpenS(snaps') : \A j \in 1..Len(view'[s]) :
          \E x \in PhysSet : KV(x) = view'[s][j] /\ Visible(x, s),
       "C06:a version visible to an open snapshot is no longer physically present">>,
     <<Ev.pending = <<>> => \A x \in PhysSet : x.dead = 0 \/ x.dead > lastGCSn',
       "C06:garbage of fully closed snapshots still linked after the collection pass">>,
     <<\A i \in 1..Len(Ev.phys) : Ev.phys[i][5] = 0, "C06:a deleted (marked) node is still linked at quiescence">>,
     <<Ev.nodes = Len(Ev.phys), "C06:node count statistic differs from the number of linked nodes">>,
     <<Ev.softdel = 0, "C06:soft-delete statistic is not zero at quiescence">>,
     <<Ev.statmem = Ev.walkmem /\ Ev.mem = Ev.walkmem + Ev.snapmem,
       "C06:MemoryInUse differs from what the linked nodes account for">>,
     <<Ev.lastgc = lastGCSn', "C06:collector did not advance to the last fully closed snapshot (or advanced past it)">>,
     <<Rng(Ev.opensn) = OpenS(snaps'), "C08:set of open snapshots differs (a snapshot was retired twice or not at all)">> >>

ItChecks ==
  << <<\A j \in 1..Len(Ev.its) :
         LET i == Ev.its[j][1]  q == view'[it'[i].snap] IN
         it'[i].open /\ it'[i].abs # 0 =>
            /\ Ev.its[j][2] = (it'[i].abs <= Len(q))
            /\ Ev.its[j][2] => PKV(Ev.its[j][3]) = q[it'[i].abs],
       "C09:an open iterator no longer stands on the item of its snapshot it was positioned at">> >>

ObsChecks == ScanChecks \o PhysChecks \o ItChecks
DriftChecks ==
  << <<PhysSet = vers', "physical chain differs from the model's version set">>,
     <<Ev.items = itemsCount', "ItemsCount differs from the model">>,
     <<Ev.cur = currSn', "current snapshot number differs">>,
     <<Rng(Ev.pending) = Rng(inflight'), "lists pending at the gate differ from the model's inflight lists">> >>

(* U = the released garbage lists unlinked by this step: with delta interleaving active, the versions in them that
   the stored snapshot sees go to the delta files (nitro.go doDeltaWrite: bornSn <= sn < deadSn) *)
DeltaOf(U) == {KV(x) : x \in {y \in vers : (\E s \in U : Pos(y) \in snaps[s].gc) /\ y.born <= dx.sn /\ y.dead > dx.sn}}
JudgeU(cs, U) == /\ bad' = Note(bad, First(cs \o ObsChecks), "BAD")
                 /\ drift' = Note(drift, First(DriftChecks), "DRIFT")
                 /\ UNCHANGED stored
                 /\ dx' = (IF dx.on /\ dx.delta THEN [dx EXCEPT !.exp = @ \cup DeltaOf(U)] ELSE dx)
Judge(cs) == JudgeU(cs, {})

Step(e) == l <= N /\ Ev.e = e /\ l' = l + 1
LiveKV(k) == CHOOSE e \in live : e.k = k

(* ---- events ---- *)
ResetState ==
  /\ vers' = {} /\ currSn' = 1 /\ itemsCount' = 0
  /\ wcount' = [w \in Writers |-> 0] /\ wgc' = [w \in Writers |-> {}]
  /\ snaps' = [s \in 1..MaxSn |-> NoSnap] /\ lastGCSn' = 0 /\ inflight' = <<>>
  /\ it' = [i \in Iters |-> NoIt]
  /\ live' = {} /\ view' = [s \in 1..MaxSn |-> <<>>]

TInit == l = 2 /\ bad = "" /\ drift = "" /\ stored = <<>> /\ dx = NoDx /\ TLog[1].e = "Init" /\ Init
TReset == Step("Init") /\ ResetState /\ stored' = <<>> /\ dx' = NoDx /\ UNCHANGED <<bad, drift>>

TPut == /\ Step("Put") /\ Put(Ev.w, Ev.k, Ev.v)
        /\ Judge(<< <<Ev.ok = (Ev.k \notin LiveKeys), "C02:Put succeeded on a live key or was rejected for an absent key">> >>)

TDelete == /\ Step("Delete") /\ Delete(Ev.w, Ev.k)
           /\ Judge(<< <<Ev.ok = (Ev.k \in LiveKeys), "C02:Delete reported success for an absent key or failure for a live key">>,
                       <<"samenode" \in DOMAIN Ev => Ev.samenode, "C02:Delete2 returned a node other than the live item's node">> >>)

TGetNode == /\ Step("GetNode") /\ UNCHANGED vars
            /\ Judge(<< <<Ev.found = (Ev.k \in LiveKeys), "C02:writer lookup found a dead/absent item or missed a live one">>,
                        <<Ev.found /\ Ev.k \in LiveKeys => PKV(Ev.item) = LiveKV(Ev.k), "C02:writer lookup returned the wrong version">> >>)

TNewSnapshot == /\ Step("NewSnapshot") /\ NewSnapshot
                /\ Judge(<< <<Ev.sn = currSn, "C02:snapshot number is not the current epoch">>,
                            <<Ev.count = Cardinality(live), "C02:Count() of the new snapshot differs from the reference set size">>,
                            <<Ev.items = Cardinality(live), "C02:ItemsCount after NewSnapshot differs from the reference set size">> >>)

TOpen == /\ Step("Open")
         /\ (IF snaps[Ev.sn].st # "none" /\ OpenOk(Ev.sn) THEN snaps' = [snaps EXCEPT ![Ev.sn].ref = @ + 1] ELSE UNCHANGED snaps)
         /\ UNCHANGED <<vers, currSn, itemsCount, wcount, wgc, lastGCSn, inflight, it, live, view>>
         /\ Judge(<< <<Ev.ok = (snaps[Ev.sn].st = "open"), "C08:Open succeeded on a fully released snapshot or failed on an open one">> >>)

Processed(D) == {s \in Rng(D.infl) : s \notin Rng(Ev.pending)}
TCloseSnap == /\ Step("CloseSnap") /\ CloseSnapU(Ev.sn, Processed(Drop(Ev.sn)))
              /\ JudgeU(<<>>, Processed(Drop(Ev.sn)))
TGC == /\ Step("GC") /\ UNCHANGED vars /\ Judge(<<>>)
TGCUnlink == /\ Step("GCUnlink")
             /\ (IF Ev.skipped THEN UNCHANGED vars ELSE GCUnlink(Ev.sn))
             /\ JudgeU(<<>>, IF Ev.skipped THEN {} ELSE {Ev.sn})

TIterNew == /\ Step("IterNew") /\ IterNew(Ev.i, Ev.sn, Ev.rate)
            /\ Judge(<< <<Ev.ok = (snaps[Ev.sn].st = "open"), "C08:NewIterator succeeded on a fully released snapshot or returned nil for an open one">> >>)
TIterSetRate == Step("IterSetRate") /\ IterSetRate(Ev.i, Ev.rate) /\ Judge(<<>>)

AbsValid(i) == it'[i].abs # 0 /\ it'[i].abs <= Len(view'[it'[i].snap])
IterJudge == Judge(<< <<Ev.valid = AbsValid(Ev.i), "C09:Valid() differs from the abstract iterator over the snapshot's items">>,
                      <<Ev.valid /\ AbsValid(Ev.i) => PKV(Ev.item) = view'[it'[Ev.i].snap][it'[Ev.i].abs],
                        "C09:iterator is positioned on the wrong item">> >>)
IterDriftOK == it'[Ev.i].valid = Ev.valid /\ (Ev.valid => Has(vers', it'[Ev.i].pos) /\ KV(At(vers', it'[Ev.i].pos)) = PKV(Ev.item))
TIterSeek == Step("IterSeek") /\ IterSeek(Ev.i, Ev.k) /\ IterJudge
TIterSeekFirst == Step("IterSeekFirst") /\ IterSeekFirst(Ev.i) /\ IterJudge
TIterNext == /\ Step("IterNext")
             /\ IF "skipped" \in DOMAIN Ev
                  THEN /\ UNCHANGED vars
                       /\ Judge(<< <<~(it[Ev.i].abs # 0 /\ it[Ev.i].abs <= Len(view[it[Ev.i].snap])),
                                     "C09:iterator reports the end although items of the snapshot remain">> >>)
                  ELSE /\ (IF it[Ev.i].valid THEN IterNext(Ev.i)
                           ELSE /\ it' = [it EXCEPT ![Ev.i].abs = @ + 1]     \* model/impl disagree on validity: keep the abstract cursor
                                /\ UNCHANGED <<vers, currSn, itemsCount, wcount, wgc, snaps, lastGCSn, inflight, live, view>>)
                       /\ IterJudge
TIterRefresh == /\ Step("IterRefresh")
                /\ (IF it[Ev.i].valid THEN IterRefresh(Ev.i) ELSE UNCHANGED vars)
                /\ IterJudge
TIterClose == /\ Step("IterClose") /\ IterCloseU(Ev.i, Processed(Drop(it[Ev.i].snap)))
              /\ JudgeU(<<>>, Processed(Drop(it[Ev.i].snap)))

(* Visitor: per-shard sequences in shard order *)
RECURSIVE Flat(_, _)
Flat(res, j) == IF j > Len(res) THEN <<>> ELSE ToKVSeq(res[j]) \o Flat(res, j + 1)
IsSubSeqOf(a, b) == \* a strictly ascending sub-sequence of b (b strictly ascending by key)
  StrictAsc(a) /\ \A i \in 1..Len(a) : \E j \in 1..Len(b) : b[j] = a[i]
TVisit ==
  /\ Step("Visit") /\ UNCHANGED vars
  /\ LET q == view[Ev.sn]  all == Flat(Ev.res, 1)
         mustErr == Ev.errat > 0 /\ Ev.calls >= Ev.errat IN
     IF Ev.hang   \* the driver abandons a stuck instance: no observations come with the event
       THEN /\ bad' = Note(bad, "C10:Visitor did not terminate", "BAD") /\ UNCHANGED <<drift, stored, dx>>
       ELSE
     Judge(<< <<~Ev.hang, "C10:Visitor did not terminate">>,
              <<Ev.err = mustErr, "C10:Visitor did not return the callback's error (or returned an error without one)">>,
              <<~mustErr => all = q, "C10:items delivered over all shards, in shard order, differ from the snapshot's items">>,
              <<mustErr => \A j \in 1..Len(Ev.res) : IsSubSeqOf(ToKVSeq(Ev.res[j]), q), "C10:a shard delivered items out of order or not of the snapshot">>,
              <<mustErr => \A a, b \in 1..Len(Ev.res) : a < b =>
                    \A x \in Rng(ToKVSeq(Ev.res[a])), y \in Rng(ToKVSeq(Ev.res[b])) : x.k < y.k,
                "C10:shards overlap or are out of order">> >>)

(* ---- backup / restore (C05): the content restored must be the stored snapshot's view; the model then
        continues as the restored instance (every item born in epoch 0, one open snapshot) ---- *)
TStoreBegin == /\ Step("StoreBegin") /\ stored' = view[Ev.sn] /\ UNCHANGED <<vars, bad, drift>>
               /\ dx' = [on |-> TRUE, delta |-> Ev.delta, sn |-> Ev.sn, exp |-> {}]
(* What StoreToDisk wrote: the shard files (in shard order) are a strictly ascending sub-sequence of the stored view;
   with delta interleaving every item of the view that is missing from them is in the delta files, which hold
   nothing but items of the view (DeltaBackup.tla: ScanPlusDeltaIsView); without it the shard files ARE the view. *)
StoreChecks ==
  IF ~Ev.ok \/ "main" \notin DOMAIN Ev THEN <<>> ELSE
  LET main == ToKVSeq(Ev.main)  df == Rng(ToKVSeq(Ev.dfile))  sv == Rng(stored) IN
  << <<Ev.readerr = "", "C05:a shard or delta file of a successful backup cannot be decoded">>,
     <<StrictAsc(main) /\ Rng(main) \subseteq sv, "C05:the shard files of the backup hold items that are not the stored snapshot's, or out of order / duplicated">>,
     <<df \subseteq sv, "C05:the delta files of the backup hold an item the stored snapshot does not contain">>,
     <<Rng(main) \cup df = sv, "C05:an item of the stored snapshot is in neither the shard files nor the delta files of the backup">>,
     <<~dx.delta => main = stored, "C05:without delta interleaving the shard files differ from the stored snapshot">> >>
TStore == /\ Step("Store") /\ UNCHANGED <<vars, stored>>
          /\ bad' = Note(bad, First(<< <<Ev.ok, "C05:StoreToDisk failed although no fault was injected">> >> \o StoreChecks \o ObsChecks), "BAD")
          /\ drift' = Note(drift, First(DriftChecks \o
                 (IF Ev.ok /\ "dfile" \in DOMAIN Ev /\ dx.on /\ dx.delta
                    THEN << <<Rng(ToKVSeq(Ev.dfile)) = dx.exp, "the delta files differ from the items unlinked by collection workers during the backup">> >>
                    ELSE <<>>)), "DRIFT")
          /\ dx' = NoDx
RestoredVers == {[k |-> stored[i].k, v |-> stored[i].v, born |-> 0, dead |-> 0] : i \in 1..Len(stored)}
TLoad ==
  /\ Step("Load")
  /\ IF Ev.ok
       THEN /\ vers' = RestoredVers /\ currSn' = 2 /\ itemsCount' = Len(stored)
            /\ wcount' = [w \in Writers |-> 0] /\ wgc' = [w \in Writers |-> {}]
            /\ snaps' = [s \in 1..MaxSn |-> IF s = 1 THEN [ref |-> 1, count |-> Len(stored), gc |-> {}, st |-> "open"] ELSE NoSnap]
            /\ lastGCSn' = 0 /\ inflight' = <<>> /\ it' = [i \in Iters |-> NoIt]
            /\ live' = {stored[i] : i \in 1..Len(stored)}
            /\ view' = [s \in 1..MaxSn |-> IF s = 1 THEN stored ELSE <<>>]
            /\ Judge(<< <<ToKVSeq(Ev.ritems) = stored, "C05:the restored snapshot's items differ from the stored snapshot (missing, extra, duplicated or out of order)">>,
                        <<Ev.rcount = Len(stored), "C05:Count() of the restored snapshot differs from the stored snapshot">> >>)
       ELSE /\ UNCHANGED <<vars, drift, stored, dx>>
            /\ bad' = Note(bad, "C05:LoadFromDisk failed on an undamaged backup", "BAD")
(* a garbage list announced by the collector was not processed by any (idle) collection worker within 30 s *)
TStuck == /\ l <= N /\ Ev.e = "Stuck" /\ l' = l + 1 /\ UNCHANGED <<vars, drift, stored, dx>>
          /\ bad' = Note(bad, "C06:a garbage list released by the collector was never taken by a collection worker (stranded garbage): " \o Ev.msg, "BAD")
(* the instance has been closed (all snapshots and iterators given back): the allocator's verdict *)
TEnd == /\ l <= N /\ Ev.e = "End" /\ l' = l + 1 /\ UNCHANGED <<vars, drift, stored, dx>>
        /\ bad' = Note(bad, IF Len(Ev.allocerrs) > 0 THEN "C04:the allocator reports: " \o Ev.allocerrs[1]
                            ELSE IF Ev.live # 0 THEN "C07:blocks are still allocated after Close returned (leak)" ELSE "", "BAD")
(* the driver process died on freed memory inside one of the library's own goroutines (attributed by the parent process) *)
TFault == /\ l <= N /\ Ev.e = "Fault" /\ l' = l + 1 /\ UNCHANGED <<vars, drift, stored, dx>>
          /\ bad' = Note(bad, "C04:" \o Ev.msg, "BAD")
(* a panic raised by a legal call sequence is behaviour of the real code (driver: guarded()) *)
TPanic == /\ l <= N /\ Ev.e = "Panic" /\ l' = l + 1 /\ UNCHANGED <<vars, drift, stored, dx>>
          /\ bad' = Note(bad, "PANIC:the call panicked: " \o Ev.msg \o " (" \o Ev.where \o ")", "BAD")
TDone == l = N + 1 /\ UNCHANGED tvars

TNext == \/ TReset \/ TPut \/ TDelete \/ TGetNode \/ TNewSnapshot \/ TOpen \/ TCloseSnap \/ TGC \/ TGCUnlink
         \/ TIterNew \/ TIterSetRate \/ TIterSeek \/ TIterSeekFirst \/ TIterNext \/ TIterRefresh \/ TIterClose
         \/ TVisit \/ TStoreBegin \/ TStore \/ TLoad \/ TEnd \/ TStuck \/ TFault \/ TPanic \/ TDone
TSpec == TInit /\ [][TNext]_tvars
Good == bad = ""
=============================================================================
