SPECIFICATION TSpec
CONSTANTS
  Alphabet = {}
  MaxItemLen = 0
  MaxItems = 0
INVARIANT Good
CHECK_DEADLOCK TRUE
