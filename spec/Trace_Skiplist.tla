-------------------------- MODULE Trace_Skiplist --------------------------
(* Step conformance of the real skiplist with Skiplist.tla under the gate: every released goroutine must
   take the Skiplist action that leads from the label it was parked at to the label it reached, and the
   real (successor, mark) word of every known node at every level must equal the model's after each step
   (drift).  Because the model state is thereby the real state, Skiplist.tla's own properties are evaluated
   on the real execution: the Asserts of Done (C13), NoDupKeys, DeleteOnce (C13), QStruct (C14) and
   NoMarkedLinked (C04) are verdicts as long as no drift was reported before. *)
EXTENDS Skiplist, Json, TLCExt
VARIABLES l, drift
tvars == <<vars, l, drift>>
TLog == ndJsonDeserialize("trace.ndjson")
Ev == TLog[l]
N == Len(TLog)
First(cs) == LET F == {i \in 1..Len(cs) : ~cs[i][1]} IN
             IF F = {} THEN "" ELSE cs[CHOOSE i \in F : \A j \in F : i <= j][2]
Note(old, new, tag) == IF old # "" THEN old
                       ELSE IF new # "" /\ PrintT(<<tag, l, new>>) THEN new ELSE new
IsStep == IF Ev.e # "S" THEN FALSE ELSE IF Ev.from \in {"", "start"} THEN FALSE ELSE "op" \in DOMAIN Ev
Target == IF Ev.pt = "done" THEN "idle" ELSE Ev.pt
Act(p) == CASE Ev.from = "idle" /\ Ev.op = "ins" -> StartInsert(p, Ev.arg, Ev.h)
            [] Ev.from = "idle" /\ Ev.op = "del" -> StartDelete(p, Ev.arg)
            [] Ev.from = "idle" /\ Ev.op = "look" -> StartLookup(p, Ev.arg)
            [] Ev.from = "idle" /\ Ev.op = "deln" -> StartDeleteNode(p, Ev.arg)
            [] Ev.from = "FP0" -> FP0(p) [] Ev.from = "FP1" -> FP1(p) [] Ev.from = "FP2" -> FP2(p)
            [] Ev.from = "FP3" -> FP3(p) [] Ev.from = "FP4" -> FP4(p) [] Ev.from = "FP5" -> FP5(p)
            [] Ev.from = "I2" -> I2(p) [] Ev.from = "U1" -> U1(p) [] Ev.from = "U3" -> U3(p)
            [] Ev.from = "S1" -> S1(p) [] Ev.from = "S2" -> S2(p) [] Ev.from = "DS" -> DS(p)
            [] Ev.from = "idle" /\ Ev.op = "itfirst" -> StartSeekFirst(p)
            [] Ev.from = "idle" /\ Ev.op = "itseek" -> StartSeek(p, Ev.arg)
            [] Ev.from = "idle" /\ Ev.op = "itnext" -> StartNext(p)
            [] Ev.from = "IT0" -> IT0(p) [] Ev.from = "IN1" -> IN1(p) [] Ev.from = "IN2" -> IN2(p)
            [] OTHER -> FALSE
Succ(w) == IF w[1] = -9 THEN T ELSE w[1]
WordsOK(row) == LET id == row[1] ws == row[2] IN
                \A k \in 1..Len(ws) : nd'[id].nx[k - 1].p = Succ(ws[k]) /\ nd'[id].nx[k - 1].m = (ws[k][2] = 1)
Obs == << <<\A j \in 1..Len(Ev.nd) : WordsOK(Ev.nd[j]), "a node's (successor, mark) word differs from the model">> >>
Fresh == /\ nd' = [n \in Ids |-> IF n = H THEN [key |-> -1, h |-> Top, nx |-> [k \in Lvls |-> Ref(T, FALSE)], pub |-> TRUE]
                           ELSE IF n = T THEN [key |-> INF, h |-> Top, nx |-> [k \in Lvls |-> Ref(T, FALSE)], pub |-> TRUE]
                           ELSE NoNode]
         /\ nalloc' = 0 /\ loc' = [p \in Procs |-> Idle] /\ nops' = [p \in Procs |-> 0]
         /\ ever' = [p \in Procs |-> [pres |-> FALSE, abs |-> FALSE]] /\ delwins' = [n \in Ids |-> 0]
         /\ scan' = [p \in Procs |-> NoScan]
TInit == l = 1 /\ drift = "" /\ Init
TReset == /\ l <= N /\ Ev.e = "SlInit" /\ l' = l + 1 /\ UNCHANGED drift /\ Fresh
Skip == /\ l <= N /\ ~IsStep /\ Ev.e # "SlInit" /\ l' = l + 1 /\ UNCHANGED <<vars, drift>>
TStep == /\ l <= N /\ IsStep /\ l' = l + 1
         /\ Act(Ev.p) /\ Track /\ loc'[Ev.p].pc = Target
         /\ drift' = Note(drift, First(Obs), "DRIFT")
TDone == l = N + 1 /\ UNCHANGED tvars
TNext == Skip \/ TReset \/ TStep \/ TDone
TSpec == TInit /\ [][TNext]_tvars
NoDrift == drift = ""
=============================================================================
