------------------------------ MODULE Shutdown ------------------------------
(* Growth beyond the listed properties (DESIGN.md section 10, items 1 and 2): the shutdown protocol of
   Nitro.Close against a running StoreToDisk with delta interleaving, the collection workers and late GC()
   callers (nitro.go: Close 422-476, StoreToDisk 888-1027, changeDeltaWrState 853-886, doCheckpoint 176-187,
   collectionWorker 648-673, GC 717-722).

   Channels are modelled as in Go:
     notify[w]  unbuffered, used in BOTH directions between StoreToDisk and worker w (request, then reply);
     closedch[w] closed by worker w when it sees gcchan closed;
     gcchan     buffered, closed by Close after it has taken the isGCRunning try-lock for good.
   Processes: backup B (delta mode), closer C, workers W, a GC caller G (a late Snapshot.Close).

   Properties:
     NoSendOnClosed   nobody sends on gcchan after it was closed (the try-lock ownership argument);
     BackupOutcome    StoreToDisk returns "ok" or ErrShutdown; "ok" only if every handshake completed;
     Termination      (deadlock freedom, checked by TLC's deadlock check + TerminationInv) every run ends with B
                      returned, C returned and all workers exited -- nobody is left blocked on a channel. *)
EXTENDS Integers, Sequences, FiniteSets, TLC

CONSTANTS Workers, NItems, MM

VARIABLES pcB, pcC, pcW, pcG,
          hasShutdown, gcRunning, gcClosed, gcq,      \* Nitro state: flag, try-lock, gcchan closed?, gcchan content
          snapsOpen,                                   \* number of entries in the live snapshot list
          wstate,                                      \* per worker delta-writer state: "inactive" | "init" | "active" | "terminate"
          notify,                                      \* per worker: "empty" | "req" (B's send pending) | "rep" (worker's reply pending)
          closedch,                                    \* per worker: closed channel?
          bi, bw, bret, wg1, sentOnClosed

vars == <<pcB, pcC, pcW, pcG, hasShutdown, gcRunning, gcClosed, gcq, snapsOpen, wstate, notify, closedch, bi, bw, bret, wg1, sentOnClosed>>

WSeq == CHOOSE s \in [1..Cardinality(Workers) -> Workers] : \A i, j \in 1..Cardinality(Workers) : i # j => s[i] # s[j]

Init ==
  /\ pcB = "B0" /\ pcC = "C0" /\ pcW = [w \in Workers |-> "select"] /\ pcG = "G0"
  /\ hasShutdown = FALSE /\ gcRunning = 0 /\ gcClosed = FALSE /\ gcq = 0
  /\ snapsOpen = 1                                   \* the snapshot being backed up
  /\ wstate = [w \in Workers |-> "inactive"] /\ notify = [w \in Workers |-> "empty"] /\ closedch = [w \in Workers |-> FALSE]
  /\ bi = 0 /\ bw = 1 /\ bret = "none" /\ wg1 = 0 /\ sentOnClosed = FALSE

(* ---- StoreToDisk (delta mode) ---- *)
B0 == /\ pcB = "B0"
      /\ IF hasShutdown THEN pcB' = "done" /\ bret' = "ErrShutdown" /\ UNCHANGED wg1
         ELSE pcB' = "Hreq" /\ bret' = bret /\ wg1' = (IF MM THEN wg1 + 1 ELSE wg1)
      /\ bw' = 1
      /\ UNCHANGED <<pcC, pcW, pcG, hasShutdown, gcRunning, gcClosed, gcq, snapsOpen, wstate, notify, closedch, bi, sentOnClosed>>
Phase == IF bi = 0 THEN "init" ELSE "terminate"         \* bi = 0: before the scan; bi > 0: the deferred terminate handshake
(* changeDeltaWrState: set the state, then   select { send request | <-closed }   then   select { receive reply | <-closed } *)
Hreq == /\ pcB = "Hreq"
        /\ LET w == WSeq[bw] IN
           \/ /\ notify[w] = "empty" /\ pcW[w] = "select"               \* the worker is in its select: rendezvous
              /\ wstate' = [wstate EXCEPT ![w] = Phase]
              /\ notify' = [notify EXCEPT ![w] = "req"] /\ pcB' = "Hrep" /\ UNCHANGED bret
              /\ pcW' = [pcW EXCEPT ![w] = "got"]                        \* its select took the notify case
           \/ /\ closedch[w] /\ pcB' = "Bfail" /\ bret' = "ErrShutdown" /\ UNCHANGED <<wstate, notify, pcW>>
        /\ UNCHANGED <<pcC, pcG, hasShutdown, gcRunning, gcClosed, gcq, snapsOpen, closedch, bi, bw, wg1, sentOnClosed>>
Hrep == /\ pcB = "Hrep"
        /\ LET w == WSeq[bw] IN
           \/ /\ notify[w] = "rep"
              /\ notify' = [notify EXCEPT ![w] = "empty"]
              /\ IF bw < Cardinality(Workers) THEN bw' = bw + 1 /\ pcB' = "Hreq"
                 ELSE bw' = 1 /\ pcB' = (IF bi = 0 THEN "Bclose" ELSE "Bend")
              /\ UNCHANGED bret
           \/ /\ closedch[w] /\ notify[w] # "rep" /\ pcB' = "Bfail" /\ bret' = "ErrShutdown" /\ UNCHANGED <<notify, bw>>
        /\ UNCHANGED <<pcC, pcW, pcG, hasShutdown, gcRunning, gcClosed, gcq, snapsOpen, wstate, closedch, bi, wg1, sentOnClosed>>
Bclose == /\ pcB = "Bclose" /\ snapsOpen' = snapsOpen - 1 /\ pcB' = "Bscan"      \* early snap.Close(); its GC() is process G
          /\ UNCHANGED <<pcC, pcW, pcG, hasShutdown, gcRunning, gcClosed, gcq, wstate, notify, closedch, bi, bw, bret, wg1, sentOnClosed>>
Bscan == /\ pcB = "Bscan"
         /\ IF hasShutdown THEN pcB' = "Hreq" /\ bret' = "ErrShutdown" /\ bi' = NItems + 1      \* callback error, then the deferred terminate
            ELSE IF bi < NItems THEN bi' = bi + 1 /\ UNCHANGED <<pcB, bret>>
            ELSE bi' = NItems + 1 /\ pcB' = "Hreq" /\ UNCHANGED bret
         /\ UNCHANGED <<pcC, pcW, pcG, hasShutdown, gcRunning, gcClosed, gcq, snapsOpen, wstate, notify, closedch, bw, wg1, sentOnClosed>>
Bfail == /\ pcB = "Bfail"                       \* an init handshake failed: the function returns, deferred functions run
         /\ IF bi = 0 THEN /\ snapsOpen' = snapsOpen - 1       \* deferred snap.Close()
                           /\ pcB' = "Bend2"
            ELSE pcB' = "Bend2" /\ UNCHANGED snapsOpen
         /\ UNCHANGED <<pcC, pcW, pcG, hasShutdown, gcRunning, gcClosed, gcq, wstate, notify, closedch, bi, bw, bret, wg1, sentOnClosed>>
Bend == /\ pcB = "Bend" /\ pcB' = "Bend2" /\ bret' = (IF bret = "none" THEN "ok" ELSE bret)
        /\ UNCHANGED <<pcC, pcW, pcG, hasShutdown, gcRunning, gcClosed, gcq, snapsOpen, wstate, notify, closedch, bi, bw, wg1, sentOnClosed>>
Bend2 == /\ pcB = "Bend2" /\ pcB' = "done" /\ wg1' = (IF MM THEN wg1 - 1 ELSE wg1)
         /\ UNCHANGED <<pcC, pcW, pcG, hasShutdown, gcRunning, gcClosed, gcq, snapsOpen, wstate, notify, closedch, bi, bw, bret, sentOnClosed>>

(* ---- collection worker ---- *)
Wreq(w) == /\ pcW[w] = "got" /\ notify[w] = "req"                 \* received the request: doCheckpoint, reply pending
           /\ pcW' = [pcW EXCEPT ![w] = "reply"]
           /\ wstate' = [wstate EXCEPT ![w] = IF @ = "init" THEN "active" ELSE IF @ = "terminate" THEN "inactive" ELSE @]
           /\ UNCHANGED <<pcB, pcC, pcG, hasShutdown, gcRunning, gcClosed, gcq, snapsOpen, notify, closedch, bi, bw, bret, wg1, sentOnClosed>>
Wreply(w) == /\ pcW[w] = "reply" /\ pcB = "Hrep" /\ WSeq[bw] = w /\ notify[w] = "req"     \* unbuffered send: needs B in its receive
             /\ notify' = [notify EXCEPT ![w] = "rep"] /\ pcW' = [pcW EXCEPT ![w] = "select"]
             /\ UNCHANGED <<pcB, pcC, pcG, hasShutdown, gcRunning, gcClosed, gcq, snapsOpen, wstate, closedch, bi, bw, bret, wg1, sentOnClosed>>
Wgc(w) == /\ pcW[w] = "select" /\ gcq > 0 /\ gcq' = gcq - 1         \* takes a garbage list (processing is atomic here)
          /\ UNCHANGED <<pcB, pcC, pcW, pcG, hasShutdown, gcRunning, gcClosed, snapsOpen, wstate, notify, closedch, bi, bw, bret, wg1, sentOnClosed>>
Wexit(w) == /\ pcW[w] = "select" /\ gcClosed /\ gcq = 0
            /\ closedch' = [closedch EXCEPT ![w] = TRUE] /\ pcW' = [pcW EXCEPT ![w] = "exited"]
            /\ wg1' = wg1            \* (the workers' own WaitGroup entries are not modelled separately)
            /\ UNCHANGED <<pcB, pcC, pcG, hasShutdown, gcRunning, gcClosed, gcq, snapsOpen, wstate, notify, bi, bw, bret, sentOnClosed>>

(* ---- a late GC() caller: the Close of the backup's snapshot reference ---- *)
G0 == /\ pcG = "G0" /\ snapsOpen = 0
      /\ IF gcRunning = 0 THEN gcRunning' = 1 /\ pcG' = "G1" ELSE UNCHANGED gcRunning /\ pcG' = "done"
      /\ UNCHANGED <<pcB, pcC, pcW, hasShutdown, gcClosed, gcq, snapsOpen, wstate, notify, closedch, bi, bw, bret, wg1, sentOnClosed>>
G1 == /\ pcG = "G1" /\ gcq' = gcq + 1 /\ sentOnClosed' = (sentOnClosed \/ gcClosed) /\ pcG' = "G2"
      /\ UNCHANGED <<pcB, pcC, pcW, hasShutdown, gcRunning, gcClosed, snapsOpen, wstate, notify, closedch, bi, bw, bret, wg1>>
G2 == /\ pcG = "G2" /\ gcRunning' = 0 /\ pcG' = "done"
      /\ UNCHANGED <<pcB, pcC, pcW, hasShutdown, gcClosed, gcq, snapsOpen, wstate, notify, closedch, bi, bw, bret, wg1, sentOnClosed>>

(* ---- Nitro.Close ---- *)
C0 == /\ pcC = "C0" /\ snapsOpen = 0 /\ pcC' = "C1"                 \* waits until no snapshot is live
      /\ UNCHANGED <<pcB, pcW, pcG, hasShutdown, gcRunning, gcClosed, gcq, snapsOpen, wstate, notify, closedch, bi, bw, bret, wg1, sentOnClosed>>
C1 == /\ pcC = "C1" /\ hasShutdown' = TRUE /\ pcC' = "C2"
      /\ UNCHANGED <<pcB, pcW, pcG, gcRunning, gcClosed, gcq, snapsOpen, wstate, notify, closedch, bi, bw, bret, wg1, sentOnClosed>>
C2 == /\ pcC = "C2" /\ gcRunning = 0 /\ gcRunning' = 1 /\ pcC' = "C3"      \* spins until it owns the try-lock; never releases it
      /\ UNCHANGED <<pcB, pcW, pcG, hasShutdown, gcClosed, gcq, snapsOpen, wstate, notify, closedch, bi, bw, bret, wg1, sentOnClosed>>
C3 == /\ pcC = "C3" /\ gcClosed' = TRUE /\ pcC' = (IF MM THEN "C4" ELSE "done")
      /\ UNCHANGED <<pcB, pcW, pcG, hasShutdown, gcRunning, gcq, snapsOpen, wstate, notify, closedch, bi, bw, bret, wg1, sentOnClosed>>
C4 == /\ pcC = "C4" /\ wg1 = 0 /\ \A w \in Workers : pcW[w] = "exited" /\ pcC' = "done"     \* shutdownWg1.Wait()
      /\ UNCHANGED <<pcB, pcW, pcG, hasShutdown, gcRunning, gcClosed, gcq, snapsOpen, wstate, notify, closedch, bi, bw, bret, wg1, sentOnClosed>>

Finished == pcB = "done" /\ pcC = "done" /\ pcG = "done" /\ \A w \in Workers : pcW[w] = "exited"
Stutter == Finished /\ UNCHANGED vars
Next == B0 \/ Hreq \/ Hrep \/ Bclose \/ Bscan \/ Bfail \/ Bend \/ Bend2 \/ G0 \/ G1 \/ G2 \/ C0 \/ C1 \/ C2 \/ C3 \/ C4
        \/ (\E w \in Workers : Wreq(w) \/ Wreply(w) \/ Wgc(w) \/ Wexit(w)) \/ Stutter
Spec == Init /\ [][Next]_vars

NoSendOnClosed == ~sentOnClosed
BackupOutcome == pcB = "done" => bret \in {"ok", "ErrShutdown"}
OkMeansHandshakesDone == bret = "ok" => \A w \in Workers : wstate[w] = "inactive"
(* with CHECK_DEADLOCK TRUE: a state without successor other than Finished is a blocked goroutine *)
=============================================================================
