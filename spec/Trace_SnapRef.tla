-------------------------- MODULE Trace_SnapRef --------------------------
(* Step conformance of the real Snapshot.Open / Close / GC with SnapRef.tla under the gate: every released
   process must take the SnapRef action that leads from the label it was parked at to the label it reached,
   and the real reference counts, live list, retired list and lastGCSn must equal the model's after every
   step (drift).  Binding evidence; the verdict for C08 comes from SnapAPI.tla. *)
EXTENDS SnapRef, Json, TLCExt
VARIABLES l, drift
tvars == <<vars, l, drift>>
TLog == ndJsonDeserialize("trace.ndjson")
Ev == TLog[l]
N == Len(TLog)
First(cs) == LET F == {i \in 1..Len(cs) : ~cs[i][1]} IN
             IF F = {} THEN "" ELSE cs[CHOOSE i \in F : \A j \in F : i <= j][2]
Note(old, new, tag) == IF old # "" THEN old
                       ELSE IF new # "" /\ PrintT(<<tag, l, new>>) THEN new ELSE new
Rng(q) == {q[i] : i \in 1..Len(q)}
IsStep == IF Ev.e # "S" THEN FALSE ELSE IF Ev.from \in {"", "start"} THEN FALSE ELSE "op" \in DOMAIN Ev
Target == IF Ev.pt = "done" THEN "idle" ELSE Ev.pt
Act(p) == CASE Ev.from = "idle" /\ Ev.op \in {"open", "iter"} -> OpenCall(p, Ev.snap)
            [] Ev.from = "idle" /\ Ev.op \in {"close", "iterclose"} -> CloseCall(p, Ev.snap)
            [] Ev.from = "idle" /\ Ev.op = "gc" -> /\ pc[p] = "idle" /\ TryLock(p, "idle")
                                                  /\ UNCHANGED <<ref, openSet, gcSet, lastGCSn, sent, snapOf, loaded, newRef, cursor, nopen, owns, retires, openedRetired, forced>>
            [] Ev.from = "O2" -> O2(p) [] Ev.from = "C2" -> C2(p) [] Ev.from = "C3" -> C3(p)
            [] Ev.from = "G1" -> G1(p) [] Ev.from = "G2" -> G2(p) [] Ev.from = "G3" -> G3(p)
            [] OTHER -> FALSE
Obs == << <<\A s \in 1..Len(Ev.ref) : ref'[s] = Ev.ref[s], "a reference count differs">>,
          <<lastGCSn' = Ev.lastgc, "lastGCSn differs">>,
          <<Rng(Ev.open) = openSet' \cap (1..Len(Ev.ref)), "live snapshot list differs">>,
          <<Rng(Ev.gcset) = gcSet', "retired snapshot list differs">> >>
Start(procs, ns, owner) ==
  /\ ref' = [s \in Snaps |-> IF s <= ns THEN 1 ELSE 0] /\ openSet' = 1..ns /\ gcSet' = {} /\ lastGCSn' = 0 /\ gcRunning' = 0 /\ sent' = <<>>
  /\ pc' = [p \in Procs |-> "idle"] /\ snapOf' = [p \in Procs |-> 0] /\ loaded' = [p \in Procs |-> 0]
  /\ newRef' = [p \in Procs |-> 0] /\ cursor' = [p \in Procs |-> 0] /\ nopen' = [p \in Procs |-> 0]
  /\ owns' = [p \in Procs |-> [s \in Snaps |-> IF s <= ns /\ owner[s] = p THEN 1 ELSE 0]]
  /\ retires' = [s \in Snaps |-> 0] /\ openedRetired' = FALSE /\ forced' = "dirty"
TInit == /\ l = 2 /\ drift = "" /\ TLog[1].e = "SrInit"
         /\ LET ns == TLog[1].nsnap owner == TLog[1].owner IN
            /\ ref = [s \in Snaps |-> IF s <= ns THEN 1 ELSE 0] /\ openSet = 1..ns /\ gcSet = {} /\ lastGCSn = 0 /\ gcRunning = 0 /\ sent = <<>>
            /\ pc = [p \in Procs |-> "idle"] /\ snapOf = [p \in Procs |-> 0] /\ loaded = [p \in Procs |-> 0]
            /\ newRef = [p \in Procs |-> 0] /\ cursor = [p \in Procs |-> 0] /\ nopen = [p \in Procs |-> 0]
            /\ owns = [p \in Procs |-> [s \in Snaps |-> IF s <= ns /\ owner[s] = p THEN 1 ELSE 0]]
            /\ retires = [s \in Snaps |-> 0] /\ openedRetired = FALSE /\ forced = "dirty"
TReset == /\ l <= N /\ Ev.e = "SrInit" /\ l' = l + 1 /\ UNCHANGED drift /\ Start(Rng(Ev.procs), Ev.nsnap, Ev.owner)
Skip == /\ l <= N /\ ~IsStep /\ Ev.e # "SrInit" /\ l' = l + 1 /\ UNCHANGED <<vars, drift>>
TStep == /\ l <= N /\ IsStep /\ l' = l + 1
         /\ Act(Ev.p) /\ pc'[Ev.p] = Target
         /\ drift' = Note(drift, First(Obs), "DRIFT")
TDone == l = N + 1 /\ UNCHANGED tvars
TNext == Skip \/ TReset \/ TStep \/ TDone
TSpec == TInit /\ [][TNext]_tvars
NoDrift == TRUE
=============================================================================
