------------------------------ MODULE SnapAPI ------------------------------
(* Snapshot handles at API grain (C08): judges recorded executions (gate-serialised or free-running; events
   ordered by the logger's mutex: OpenRet after the call returned, CloseCall before Close is called, Retire
   and GCSend inside Close/GC).

   - Open / NewIterator succeed iff the snapshot has not been fully released: a success after its
     retirement, or a failure while a handle is still outstanding, is a violation;
   - a snapshot is retired exactly once, and only when no handle is outstanding;
   - the collector releases snapshots strictly in order 1, 2, 3, ...;
   - when every handle has been closed and one more GC() pass has run, the collector has reached the last
     snapshot: nothing is stuck in the retired list. *)
EXTENDS Integers, Sequences, FiniteSets, TLC, Json, TLCExt
VARIABLES l, bad, handles, retired, sent, nsnap
avars == <<l, bad, handles, retired, sent, nsnap>>
TLog == ndJsonDeserialize("trace.ndjson")
Ev == TLog[l]
N == Len(TLog)
MaxS == 8
First(cs) == LET F == {i \in 1..Len(cs) : ~cs[i][1]} IN
             IF F = {} THEN "" ELSE cs[CHOOSE i \in F : \A j \in F : i <= j][2]
Note(old, new, tag) == IF old # "" THEN old
                       ELSE IF new # "" /\ PrintT(<<tag, l, new>>) THEN new ELSE new
Step(e) == l <= N /\ Ev.e = e /\ l' = l + 1
TInit == /\ l = 2 /\ bad = "" /\ TLog[1].e = "SrInit" /\ nsnap = TLog[1].nsnap
         /\ handles = [s \in 1..MaxS |-> IF s <= TLog[1].nsnap THEN 1 ELSE 0]
         /\ retired = [s \in 1..MaxS |-> 0] /\ sent = <<>>
TReset == /\ Step("SrInit") /\ nsnap' = Ev.nsnap
          /\ handles' = [s \in 1..MaxS |-> IF s <= Ev.nsnap THEN 1 ELSE 0]
          /\ retired' = [s \in 1..MaxS |-> 0] /\ sent' = <<>> /\ UNCHANGED bad
TSkip == /\ l <= N /\ Ev.e \in {"S", "SrEnd"} /\ l' = l + 1 /\ UNCHANGED <<bad, handles, retired, sent, nsnap>>
TOpenRet ==
  /\ Step("OpenRet")
  /\ handles' = (IF Ev.ok THEN [handles EXCEPT ![Ev.sn] = @ + 1] ELSE handles)
  /\ bad' = Note(bad, First(<<
       <<Ev.ok => retired[Ev.sn] = 0, "C08:" \o Ev.api \o " succeeded on a snapshot whose last reference had already been dropped">>,
       <<~Ev.ok => handles[Ev.sn] = 0, "C08:" \o Ev.api \o " failed although a handle on the snapshot is still outstanding">> >>), "BAD")
  /\ UNCHANGED <<retired, sent, nsnap>>
TCloseCall == /\ Step("CloseCall") /\ handles' = [handles EXCEPT ![Ev.sn] = @ - 1]
              /\ UNCHANGED <<bad, retired, sent, nsnap>>
TRetire ==
  /\ Step("Retire") /\ retired' = [retired EXCEPT ![Ev.sn] = @ + 1]
  /\ bad' = Note(bad, First(<<
       <<retired[Ev.sn] = 0, "C08:a snapshot was retired for collection twice">>,
       <<handles[Ev.sn] = 0, "C08:a snapshot was retired while a handle on it is still outstanding">> >>), "BAD")
  /\ UNCHANGED <<handles, sent, nsnap>>
TGCSend ==
  /\ Step("GCSend") /\ sent' = Append(sent, Ev.sn)
  /\ bad' = Note(bad, First(<<
       <<Ev.sn = Len(sent) + 1, "C08:the collector released snapshots out of order">>,
       \* (the Retire event is logged after the snapshot became visible in the retired list, so a concurrent
       \*  collector may legitimately log its send first: judge by outstanding handles, which is sound)
       <<handles[Ev.sn] = 0, "C08:the collector released a snapshot on which a handle is still outstanding">> >>), "BAD")
  /\ UNCHANGED <<handles, retired, nsnap>>
RECURSIVE Prefix(_)
Prefix(n) == IF n < nsnap /\ retired[n + 1] > 0 THEN Prefix(n + 1) ELSE n
TQuiesce ==
  /\ Step("Quiesce")
  /\ bad' = Note(bad, First(<<
       <<Ev.lastgc = Prefix(0), "C08:all handles are closed and GC() has run, but the collector did not reach the last fully released snapshot (stuck)">>,
       <<(\A s \in 1..nsnap : handles[s] = 0) => Ev.gcset = <<>> /\ Ev.open = <<>>,
         "C08:all handles are closed but a snapshot is still listed as live or waits in the retired list">>,
       <<\A s \in 1..Len(Ev.ref) : handles[s] = 0 => Ev.ref[s] = 0, "C08:reference count of a fully released snapshot is not zero">> >>), "BAD")
  /\ UNCHANGED <<handles, retired, sent, nsnap>>
TDone == l = N + 1 /\ UNCHANGED avars
TNext == TReset \/ TSkip \/ TOpenRet \/ TCloseCall \/ TRetire \/ TGCSend \/ TQuiesce \/ TDone
TSpec == TInit /\ [][TNext]_avars
Good == bad = ""
=============================================================================
