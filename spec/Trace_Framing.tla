------------------------- MODULE Trace_Framing -------------------------
(* Trace validation for C19: the framing produced/consumed by the real FileWriter/FileReader and the KV
   helpers is recomputed with the operators of Framing.tla and compared byte for byte. *)
EXTENDS Framing, Json, TLCExt
VARIABLES l, bad
tvars == <<x, l, bad>>
TLog == ndJsonDeserialize("trace.ndjson")
Ev == TLog[l]
N == Len(TLog)
First(cs) == LET F == {i \in 1..Len(cs) : ~cs[i][1]} IN
             IF F = {} THEN "" ELSE cs[CHOOSE i \in F : \A j \in F : i <= j][2]
Note(old, new, tag) == IF old # "" THEN old
                       ELSE IF new # "" /\ PrintT(<<tag, l, new>>) THEN new ELSE new
Step(e) == l <= N /\ Ev.e = e /\ l' = l + 1 /\ UNCHANGED x
TInit == l = 1 /\ bad = "" /\ x = 0
TStream ==
  /\ Step("Stream")
  /\ LET d == Decode(Ev.file, Ev.ver) IN
     bad' = Note(bad, First(<<
        <<Ev.werr = "" /\ Ev.rerr = "", "C19:writer or reader reported an error on an undamaged stream">>,
        <<Ev.file = Encode(Ev.items, Ev.ver), "C19:file bytes differ from the framing (length prefix, item bytes, zero-length terminator)">>,
        <<Ev.decoded = Ev.items, "C19:items read back differ from the items written">>,
        <<Ev.eos, "C19:reader did not report end-of-stream after the last item">>,
        <<d.st = "eos" /\ d.items = Ev.items, "C19:the specification's decoder disagrees with the written items (format drift)">>,
        <<Ev.ver = 1 => Ev.rsum = Ev.wsum, "C19:reader checksum differs from the writer checksum">> >>), "BAD")
TKV ==
  /\ Step("KV")
  /\ bad' = Note(bad, First(<<
        <<Ev.enc = KVToBytes(Ev.k, Ev.v), "C19:KVToBytes layout differs (2-byte little-endian key length, key, value)">>,
        <<Ev.dk = Ev.k /\ Ev.dv = Ev.v, "C19:KVFromBytes does not invert KVToBytes">> >>), "BAD")
TCmp ==
  /\ Step("Cmp")
  /\ bad' = Note(bad, First(<<
        <<Ev.r = CompareKV(Ev.a, Ev.b), "C19:CompareKV does not order pairs as bytes.Compare orders their keys">>,
        <<Ev.rr = -Ev.r, "C19:CompareKV is not antisymmetric">> >>), "BAD")
(* KV pairs with very long keys (around 2^15 and 2^16 - 1): header, total length and round trip *)
TKVL ==
  /\ Step("KVL")
  /\ bad' = Note(bad, First(<<
        <<Ev.hdr = <<Ev.lk % 256, Ev.lk \div 256>>, "C19:KVToBytes does not store the key length in 2 little-endian bytes (long key)">>,
        <<Ev.lenc = 2 + Ev.lk + Ev.lv /\ Ev.keyinplace, "C19:KVToBytes layout differs for a long key (2-byte length, key, value)">>,
        <<Ev.keyok /\ Ev.valok, "C19:KVFromBytes does not invert KVToBytes for a long key">>,
        <<Ev.cmpself = 0 /\ Ev.cmplast = Ev.wantlast, "C19:CompareKV does not order pairs with long keys as bytes.Compare orders their keys">> >>), "BAD")
(* a stream with one item of 16 MiB or more: the headers found at the offsets the format prescribes, the file size and
   the reader's results are logged instead of the bytes *)
RECURSIVE SumLens(_)
SumLens(q) == IF q = <<>> THEN 0 ELSE 4 + Head(q) + SumLens(Tail(q))
THuge ==
  /\ Step("Huge")
  /\ bad' = Note(bad, First(<<
        <<Ev.werr = "" /\ Ev.rerr = "", "C19:writer or reader reported an error on an undamaged stream with a large item">>,
        <<Ev.size = SumLens(Ev.lens) + 4, "C19:file size differs from the framing of the items written (large item)">>,
        <<\A i \in 1..Len(Ev.lens) : Ev.hdrs[i] = BE32(Ev.lens[i]), "C19:length prefix of a large item is not its length in 4 big-endian bytes">>,
        <<Ev.hdrs[Len(Ev.lens) + 1] = BE32(0), "C19:zero-length terminator missing after a large item">>,
        <<Ev.dlens = Ev.lens /\ \A i \in 1..Len(Ev.same) : Ev.same[i], "C19:items read back differ from the items written (large item)">>,
        <<Ev.eos, "C19:reader did not report end-of-stream after the last item">>,
        <<Ev.sumeq, "C19:reader checksum differs from the writer checksum">> >>), "BAD")
(* a panic raised by a legal call sequence is behaviour of the real code (driver: guarded()) *)
TPanic == /\ l <= N /\ Ev.e = "Panic" /\ l' = l + 1 /\ UNCHANGED x
          /\ bad' = Note(bad, "C19:the call panicked: " \o Ev.msg \o " (" \o Ev.where \o ")", "BAD")
TDone == l = N + 1 /\ UNCHANGED tvars
TNext == TStream \/ TKV \/ TKVL \/ TCmp \/ THuge \/ TPanic \/ TDone
TSpec == TInit /\ [][TNext]_tvars
Good == bad = ""
=============================================================================
