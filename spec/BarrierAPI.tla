----------------------------- MODULE BarrierAPI -----------------------------
(* The access barrier at API grain: what a user of Acquire / Release / FlushSession and the destructor
   callback can observe.  Used to judge recorded executions (gate-serialised or free-running, where events
   are ordered by the logger's mutex: AcqRet is logged after Acquire returned, RelCall before Release is
   called, FlushCall before FlushSession is called, FlushLocked under the flush mutex, Destruct inside
   the callback -- so "logged before" implies "really happened before").

   C16: the destructor of flush f runs once, after the destructors of all earlier flushes (order of
        FlushLocked), only after every token acquired before FlushCall(f) has been released; a token
        is never handed out for a session whose destructor has run.  The code's own panics count.
   C17: whenever no call is in progress and no token is held, every flush has been destructed. *)
EXTENDS Integers, Sequences, FiniteSets, TLC, Json, TLCExt
VARIABLES l, bad,
          held,        \* process -> stack of [id, sess]
          ntok, released,
          pendAt,      \* flush -> token ids held when it was called
          order,       \* sequence of flushes in FlushLocked order
          sessOf,      \* flush -> session it closed (0 = not yet locked)
          done,        \* sequence of flushes destructed
          ncalls
avars == <<l, bad, held, ntok, released, pendAt, order, sessOf, done, ncalls>>
TLog == ndJsonDeserialize("trace.ndjson")
Ev == TLog[l]
N == Len(TLog)
MaxF == 64
First(cs) == LET F == {i \in 1..Len(cs) : ~cs[i][1]} IN
             IF F = {} THEN "" ELSE cs[CHOOSE i \in F : \A j \in F : i <= j][2]
Note(old, new, tag) == IF old # "" THEN old
                       ELSE IF new # "" /\ PrintT(<<tag, l, new>>) THEN new ELSE new
Rng(q) == {q[i] : i \in 1..Len(q)}
Fresh(procs) == /\ held' = [p \in procs |-> <<>>] /\ ntok' = 0 /\ released' = {}
                /\ pendAt' = [f \in 1..MaxF |-> {}] /\ order' = <<>> /\ sessOf' = [f \in 1..MaxF |-> 0]
                /\ done' = <<>> /\ ncalls' = 0
TInit == /\ l = 2 /\ bad = "" /\ TLog[1].e = "AbInit"
         /\ held = [p \in Rng(TLog[1].procs) |-> <<>>] /\ ntok = 0 /\ released = {}
         /\ pendAt = [f \in 1..MaxF |-> {}] /\ order = <<>> /\ sessOf = [f \in 1..MaxF |-> 0]
         /\ done = <<>> /\ ncalls = 0
Step(e) == l <= N /\ Ev.e = e /\ l' = l + 1
AllTok == UNION {{held[p][i].id : i \in 1..Len(held[p])} : p \in DOMAIN held}
DoneSess == {sessOf[done[i]] : i \in 1..Len(done)}

TReset == Step("AbInit") /\ Fresh(Rng(Ev.procs)) /\ UNCHANGED bad
TSkip == /\ l <= N /\ Ev.e \in {"S", "AbEnd", "FlushRet"} /\ l' = l + 1
         /\ UNCHANGED <<bad, held, ntok, released, pendAt, order, sessOf, done, ncalls>>
TAcqRet ==
  /\ Step("AcqRet")
  /\ held' = [held EXCEPT ![Ev.p] = Append(@, [id |-> ntok + 1, sess |-> Ev.sess])] /\ ntok' = ntok + 1
  /\ bad' = Note(bad, First(<< <<Ev.sess \notin DoneSess,
        "C16:Acquire returned a token of a session whose destructor has already run">> >>), "BAD")
  /\ UNCHANGED <<released, pendAt, order, sessOf, done, ncalls>>
TRelCall ==
  /\ Step("RelCall") /\ held[Ev.p] # <<>>
  /\ released' = released \cup {held[Ev.p][Len(held[Ev.p])].id}
  /\ held' = [held EXCEPT ![Ev.p] = SubSeq(@, 1, Len(@) - 1)]
  /\ UNCHANGED <<bad, ntok, pendAt, order, sessOf, done, ncalls>>
TFlushCall ==
  /\ Step("FlushCall")
  /\ pendAt' = [pendAt EXCEPT ![Ev.f] = AllTok] /\ ncalls' = ncalls + 1
  /\ UNCHANGED <<bad, held, ntok, released, order, sessOf, done>>
TFlushLocked ==
  /\ Step("FlushLocked")
  /\ order' = Append(order, Ev.f) /\ sessOf' = [sessOf EXCEPT ![Ev.f] = Ev.sess]
  /\ UNCHANGED <<bad, held, ntok, released, pendAt, done, ncalls>>
TDestruct ==
  /\ Step("Destruct")
  /\ done' = Append(done, Ev.f)
  /\ bad' = Note(bad, First(<<
        <<Ev.f \in 1..MaxF /\ Ev.f \notin Rng(done), "C16:the destructor ran twice for one FlushSession call">>,
        <<Ev.f \in Rng(order), "C16:the destructor ran for an object whose flush has not closed a session">>,
        <<Len(done) + 1 <= Len(order) /\ order[Len(done) + 1] = Ev.f, "C16:destructors ran out of flush order (an earlier flush is still pending)">>,
        <<pendAt[Ev.f] \subseteq released, "C16:the destructor ran while an accessor that acquired before the flush still holds its token">>,
        <<\A p \in DOMAIN held : \A i \in 1..Len(held[p]) : held[p][i].sess # sessOf[Ev.f],
          "C16:the destructor ran for a session in which an accessor is still counted">> >>), "BAD")
  /\ UNCHANGED <<held, ntok, released, pendAt, order, sessOf, ncalls>>
TQuiesce ==
  /\ Step("Quiesce")
  /\ bad' = Note(bad, First(<< <<Len(done) = ncalls,
        "C17:all accessors released and no call in progress, but a flushed session has not been destructed (nothing will trigger it)">> >>), "BAD")
  /\ UNCHANGED <<held, ntok, released, pendAt, order, sessOf, done, ncalls>>
TPanic ==
  /\ Step("Panic")
  /\ bad' = Note(bad, "C16:the barrier panicked: " \o Ev.msg, "BAD")
  /\ UNCHANGED <<held, ntok, released, pendAt, order, sessOf, done, ncalls>>
TDone == l = N + 1 /\ UNCHANGED avars
TNext == TReset \/ TSkip \/ TAcqRet \/ TRelCall \/ TFlushCall \/ TFlushLocked \/ TDestruct \/ TQuiesce \/ TPanic \/ TDone
TSpec == TInit /\ [][TNext]_avars
Good == bad = ""
=============================================================================
