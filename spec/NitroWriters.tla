---------------------------- MODULE NitroWriters ----------------------------
(* Concurrent nitro writers on ONE contended key, with the reclamation pipeline behind them
   (nitro.go:200-285, 607-690; the skiplist is abstracted to its linearization points -- justified by
   Skiplist.tla / C13 -- and the access barrier to sessions with tokens and in-order destruction --
   justified by AccessBarrier.tla / C16, C17).

   Epoch 1 holds the versions born before the concurrent phase, epoch 2 is the current one.  A writer's
   Delete2 is   [D0 outer token]  G1 GetNode (lookup under its own token)  N1 DeleteNode entry (read bornSn)
   N2 same-epoch: physical delete   N3 session flush carrying the node
   N4 older epoch: deadSn CAS   N5 garbage-list append by the winner.
   Writers are numbered 1..n in creation order (Writers \subseteq Nat).
   After the concurrent phase: NewSnapshot stitches the writers' lists, the snapshot is closed, a collection
   worker unlinks the list node by node and flushes a session carrying it, the barrier destructs sessions in
   order once their accessors are gone, the free worker walks each list and frees node by node, and Close
   frees whatever is still linked.

   FIXD3 = FALSE is the pinned commit: the loser of a contended delete still resets the node's link (cutting
   the winner's list) and, for a same-epoch node, still flushes a session carrying the node (double free);
   Delete2 drops its token between lookup and delete.  TRUE = only the winner touches the node, Delete2 holds
   a token across both steps.

   C03: DeleteOnce, PutOnlyIfAbsent (linearization points are the atomic steps).
   C04: NoUAF, NoDoubleFree, FreedImpliesUnlinked.   C06: GcListsIntact.   C07: AllFreedOnceAtClose. *)
EXTENDS Integers, Sequences, FiniteSets, TLC

CONSTANTS Writers, MaxOps, MaxNodes, OldLive, FIXD3

Ids == 1..MaxNodes
NoNode == [born |-> 0, dead |-> 0, linked |-> FALSE, marked |-> FALSE, link |-> 0, freed |-> 0, wins |-> 0]

VARIABLES nd, nalloc,
          pc, x, res, nops, outer,        \* per writer
          gchead, gctail,                 \* per writer garbage list
          cur, acc, closedq,              \* barrier: current session, accessors per session, closed sessions [sess, ref]
          freeq, fw,                      \* lists handed to the free worker; free worker cursor (0 = idle)
          gcw,                            \* collection worker cursor (0 = idle), gcwhead = list it is working on
          gcwhead, snapgc, phase,
          uaf                             \* ghost: a step dereferenced a freed node

vars == <<nd, nalloc, pc, x, res, nops, outer, gchead, gctail, cur, acc, closedq, freeq, fw, gcw, gcwhead, snapgc, phase, uaf>>
MaxSess == 2 + 2 * Cardinality(Writers) * MaxOps

Init ==
  /\ nalloc = (IF OldLive THEN 1 ELSE 0)
  /\ nd = [n \in Ids |-> IF OldLive /\ n = 1 THEN [NoNode EXCEPT !.born = 1, !.linked = TRUE] ELSE NoNode]
  /\ pc = [w \in Writers |-> "idle"] /\ x = [w \in Writers |-> 0] /\ res = [w \in Writers |-> FALSE]
  /\ nops = [w \in Writers |-> 0] /\ outer = [w \in Writers |-> 0]
  /\ gchead = [w \in Writers |-> 0] /\ gctail = [w \in Writers |-> 0]
  /\ cur = 1 /\ acc = [s \in 1..MaxSess |-> 0] /\ closedq = <<>>
  /\ freeq = <<>> /\ fw = 0 /\ gcw = 0 /\ gcwhead = 0 /\ snapgc = 0 /\ phase = "run" /\ uaf = FALSE

LiveNodes == {n \in 1..nalloc : nd[n].linked /\ ~nd[n].marked /\ nd[n].dead = 0}
Deref(S) == uaf' = (uaf \/ \E n \in S : n # 0 /\ nd[n].freed > 0)     \* the step reads or writes these nodes
Go(w, l) == pc' = [pc EXCEPT ![w] = l]
Flush(ref) == /\ closedq' = Append(closedq, [sess |-> cur, ref |-> ref]) /\ cur' = cur + 1
ReleaseOuter(w) == IF outer[w] # 0 THEN /\ acc' = [acc EXCEPT ![outer[w]] = @ - 1] /\ outer' = [outer EXCEPT ![w] = 0]
                   ELSE UNCHANGED <<acc, outer>>

(* ---- Put2: Insert2 under a token; publish = linearization point ---- *)
Put(w) ==
  /\ phase = "run" /\ pc[w] = "idle" /\ nops[w] < MaxOps /\ nalloc < MaxNodes
  /\ nops' = [nops EXCEPT ![w] = @ + 1]
  /\ IF LiveNodes = {}
       THEN /\ nalloc' = nalloc + 1
            /\ nd' = [nd EXCEPT ![nalloc + 1] = [NoNode EXCEPT !.born = 2, !.linked = TRUE]]
            /\ res' = [res EXCEPT ![w] = TRUE]
       ELSE /\ UNCHANGED <<nalloc, nd>> /\ res' = [res EXCEPT ![w] = FALSE]      \* rejected: item and node freed at once
  /\ UNCHANGED <<pc, x, outer, gchead, gctail, cur, acc, closedq, freeq, fw, gcw, gcwhead, snapgc, phase, uaf>>

(* ---- Delete2 ---- *)
DelStart(w) ==
  /\ phase = "run" /\ pc[w] = "idle" /\ nops[w] < MaxOps
  /\ nops' = [nops EXCEPT ![w] = @ + 1]
  /\ IF FIXD3 THEN outer' = [outer EXCEPT ![w] = cur] /\ acc' = [acc EXCEPT ![cur] = @ + 1] ELSE UNCHANGED <<outer, acc>>
  /\ Go(w, "G1")
  /\ UNCHANGED <<nd, nalloc, x, res, gchead, gctail, cur, closedq, freeq, fw, gcw, gcwhead, snapgc, phase, uaf>>
G1(w) ==          \* GetNode: lookup under its own token, token released on return
  /\ pc[w] = "G1"
  /\ IF LiveNodes = {}
       THEN /\ x' = [x EXCEPT ![w] = 0] /\ res' = [res EXCEPT ![w] = FALSE] /\ Go(w, "idle") /\ ReleaseOuter(w)
       ELSE /\ x' = [x EXCEPT ![w] = CHOOSE n \in LiveNodes : TRUE] /\ Go(w, "N1") /\ UNCHANGED <<res, acc, outer>>
  /\ UNCHANGED <<nd, nalloc, nops, gchead, gctail, cur, closedq, freeq, fw, gcw, gcwhead, snapgc, phase, uaf>>
N1(w) ==          \* DeleteNode entry: (pinned: SetLink(nil)), read the item's bornSn
  /\ pc[w] = "N1" /\ Deref({x[w]})
  /\ nd' = (IF FIXD3 THEN nd ELSE [nd EXCEPT ![x[w]].link = 0])
  /\ Go(w, IF nd[x[w]].born = 2 THEN "N2" ELSE "N4")
  /\ UNCHANGED <<nalloc, x, res, nops, outer, gchead, gctail, cur, acc, closedq, freeq, fw, gcw, gcwhead, snapgc, phase>>
N2(w) ==          \* same epoch: store.DeleteNode -- the level-0 mark decides the winner; the winner unlinks
  /\ pc[w] = "N2" /\ Deref({x[w]})
  /\ IF ~nd[x[w]].marked
       THEN /\ nd' = [nd EXCEPT ![x[w]].marked = TRUE, ![x[w]].linked = FALSE, ![x[w]].wins = @ + 1,
                                ![x[w]].link = (IF FIXD3 THEN 0 ELSE @)]
            /\ res' = [res EXCEPT ![w] = TRUE]
       ELSE /\ nd' = nd /\ res' = [res EXCEPT ![w] = FALSE]
  /\ Go(w, "N3")
  /\ UNCHANGED <<nalloc, x, nops, outer, gchead, gctail, cur, acc, closedq, freeq, fw, gcw, gcwhead, snapgc, phase>>
N3(w) ==          \* FlushSession(x): pinned = always, repaired = winner only
  /\ pc[w] = "N3"
  /\ IF res[w] \/ ~FIXD3 THEN Flush(x[w]) ELSE UNCHANGED <<closedq, cur>>
  /\ res' = res /\ ReleaseOuter(w) /\ Go(w, "idle")
  /\ UNCHANGED <<nd, nalloc, x, nops, gchead, gctail, freeq, fw, gcw, gcwhead, snapgc, phase, uaf>>
N4(w) ==          \* older epoch: the deadSn CAS decides the winner (nitro.go DeleteNode, vpDelNodeCAS)
  /\ pc[w] = "N4" /\ Deref({x[w]})
  /\ IF nd[x[w]].dead = 0
       THEN /\ res' = [res EXCEPT ![w] = TRUE]
            /\ nd' = [nd EXCEPT ![x[w]].dead = 2, ![x[w]].wins = @ + 1]
            /\ Go(w, "N5") /\ UNCHANGED <<acc, outer>>
       ELSE /\ res' = [res EXCEPT ![w] = FALSE] /\ nd' = nd /\ ReleaseOuter(w) /\ Go(w, "idle")
  /\ UNCHANGED <<nalloc, x, nops, gchead, gctail, cur, closedq, freeq, fw, gcw, gcwhead, snapgc, phase>>
N5(w) ==          \* the winner resets the node's link and appends it to its garbage list (vpDelNodeAppend)
  /\ pc[w] = "N5" /\ Deref({x[w], gctail[w]})
  /\ LET n1 == [nd EXCEPT ![x[w]].link = (IF FIXD3 THEN 0 ELSE @)] IN
       nd' = (IF gctail[w] = 0 THEN n1 ELSE [n1 EXCEPT ![gctail[w]].link = x[w]])
  /\ gchead' = [gchead EXCEPT ![w] = IF gctail[w] = 0 THEN x[w] ELSE @]
  /\ gctail' = [gctail EXCEPT ![w] = x[w]]
  /\ ReleaseOuter(w) /\ Go(w, "idle")
  /\ UNCHANGED <<nalloc, x, res, nops, cur, closedq, freeq, fw, gcw, gcwhead, snapgc, phase>>

(* ---- barrier: the oldest closed session is destructed once it and all earlier sessions have no accessor ---- *)
Destruct ==
  /\ closedq # <<>>
  /\ \A s \in 1..Head(closedq).sess : acc[s] = 0
  /\ freeq' = (IF Head(closedq).ref # 0 THEN Append(freeq, Head(closedq).ref) ELSE freeq)
  /\ closedq' = Tail(closedq)
  /\ UNCHANGED <<nd, nalloc, pc, x, res, nops, outer, gchead, gctail, cur, acc, fw, gcw, gcwhead, snapgc, phase, uaf>>

(* ---- free worker: walks a list through the nodes' links, freeing node by node -- nitro.go:675-690 ---- *)
FwTake == /\ fw = 0 /\ freeq # <<>> /\ fw' = Head(freeq) /\ freeq' = Tail(freeq)
          /\ UNCHANGED <<nd, nalloc, pc, x, res, nops, outer, gchead, gctail, cur, acc, closedq, gcw, gcwhead, snapgc, phase, uaf>>
FwFree == /\ fw # 0 /\ Deref({fw})
          /\ nd' = [nd EXCEPT ![fw].freed = @ + 1]
          /\ fw' = nd[fw].link
          /\ UNCHANGED <<nalloc, pc, x, res, nops, outer, gchead, gctail, cur, acc, closedq, freeq, gcw, gcwhead, snapgc, phase>>

(* ---- after the concurrent phase ---- *)
RECURSIVE Stitch(_, _, _)
\* NewSnapshot: chain the writers' lists (tail.SetLink(next head)); returns [nd, head, tail]
Stitch(ws, st, f) == IF ws = {} THEN [nd |-> f, head |-> st.head, tail |-> st.tail]
                     ELSE LET w == CHOOSE v \in ws : \A u \in ws : u <= v IN      \* newest writer first (Nitro.wlist is a prepend list)
                          IF gchead[w] = 0 THEN Stitch(ws \ {w}, st, f)
                          ELSE IF st.tail = 0 THEN Stitch(ws \ {w}, [head |-> gchead[w], tail |-> gctail[w]], f)
                          ELSE Stitch(ws \ {w}, [head |-> st.head, tail |-> gctail[w]], [f EXCEPT ![st.tail].link = gchead[w]])
Snapshot ==       \* NewSnapshot at quiescence, immediately closed: its list goes to the collection worker
  /\ phase = "run" /\ \A w \in Writers : pc[w] = "idle"
  /\ LET s == Stitch(Writers, [head |-> 0, tail |-> 0], nd) IN
       /\ nd' = s.nd /\ snapgc' = s.head /\ gcw' = s.head /\ gcwhead' = s.head
  /\ gchead' = [w \in Writers |-> 0] /\ gctail' = [w \in Writers |-> 0]
  /\ phase' = "snap"
  /\ UNCHANGED <<nalloc, pc, x, res, nops, outer, cur, acc, closedq, freeq, fw, uaf>>
GcStep ==         \* collection worker: unlink one node of the released list; at the end flush a session carrying the list
  /\ phase = "snap"
  /\ IF gcw # 0
       THEN /\ Deref({gcw})
            /\ nd' = [nd EXCEPT ![gcw].linked = FALSE, ![gcw].marked = TRUE]
            /\ gcw' = nd[gcw].link
            /\ UNCHANGED <<closedq, cur, phase>>
       ELSE /\ Flush(gcwhead) /\ phase' = "collected" /\ UNCHANGED <<nd, gcw, uaf>>
  /\ UNCHANGED <<nalloc, pc, x, res, nops, outer, gchead, gctail, acc, freeq, fw, gcwhead, snapgc>>
CloseDB ==        \* Nitro.Close: workers drained, then every node still linked is freed
  /\ phase = "collected" /\ closedq = <<>> /\ freeq = <<>> /\ fw = 0
  /\ nd' = [n \in Ids |-> IF n <= nalloc /\ nd[n].linked THEN [nd[n] EXCEPT !.freed = @ + 1, !.linked = FALSE] ELSE nd[n]]
  /\ phase' = "closed"
  /\ UNCHANGED <<nalloc, pc, x, res, nops, outer, gchead, gctail, cur, acc, closedq, freeq, fw, gcw, gcwhead, snapgc, uaf>>

Next == \/ \E w \in Writers : Put(w) \/ DelStart(w) \/ G1(w) \/ N1(w) \/ N2(w) \/ N3(w) \/ N4(w) \/ N5(w)
        \/ Destruct \/ FwTake \/ FwFree \/ Snapshot \/ GcStep \/ CloseDB
Spec == Init /\ [][Next]_vars

(* ---- properties ---- *)
C03_DeleteOnce == \A n \in 1..nalloc : nd[n].wins <= 1
C03_AtMostOneLive == Cardinality(LiveNodes) <= 1
C04_NoUAF == ~uaf
C04_NoDoubleFree == \A n \in 1..nalloc : nd[n].freed <= 1
C04_FreedImpliesUnlinked == \A n \in 1..nalloc : nd[n].freed > 0 => ~nd[n].linked
C06_GcListsIntact == phase \in {"collected", "closed"} => \A n \in 1..nalloc : nd[n].dead # 0 => ~nd[n].linked
C07_AllFreedOnceAtClose == phase = "closed" => \A n \in 1..nalloc : nd[n].freed = 1
=============================================================================
