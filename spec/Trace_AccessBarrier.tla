----------------------- MODULE Trace_AccessBarrier -----------------------
(* Step conformance (binding evidence): the fine-grain log of a gate-serialised execution of the real
   access barrier -- one "S" event per released process: label it was parked at, label it reached, and the
   real counters read through the verif accessors -- must be a behaviour of AccessBarrier.tla, with the
   real liveCount / closed / seqno / session pointer / activeSeqno / freeSeqno / try-lock / queue length
   equal to the model's after every step.  Mismatches of values set `drift`; a step that is no action of
   the model deadlocks this specification (reported as MODEL-DRIFT by the runner).  Verdicts for C16/C17
   come from Trace_BarrierAPI.tla. *)
EXTENDS AccessBarrier, Json, TLCExt
VARIABLES l, drift
tvars == <<vars, l, drift>>
TLog == ndJsonDeserialize("trace.ndjson")
Ev == TLog[l]
N == Len(TLog)
First(cs) == LET F == {i \in 1..Len(cs) : ~cs[i][1]} IN
             IF F = {} THEN "" ELSE cs[CHOOSE i \in F : \A j \in F : i <= j][2]
Note(old, new, tag) == IF old # "" THEN old
                       ELSE IF new # "" /\ PrintT(<<tag, l, new>>) THEN new ELSE new
Target == IF Ev.pt = "done" THEN "idle" ELSE Ev.pt
Act(p) == CASE Ev.from = "idle" /\ Ev.pt = "A1" -> AcqStart(p)
            [] Ev.from = "idle" /\ Ev.pt = "R1" -> RelStart(p)
            [] Ev.from = "idle" /\ Ev.pt = "F0" -> FStart(p)
            [] Ev.from = "A1" -> A1(p) [] Ev.from = "A2" -> A2(p)
            [] Ev.from = "R1" -> R1(p) [] Ev.from = "R2" -> R2(p) [] Ev.from = "R3" -> R3(p) [] Ev.from = "R4" -> R4(p)
            [] Ev.from = "C1" -> C1(p) [] Ev.from = "C2" -> C2(p) [] Ev.from = "C3" -> C3(p) [] Ev.from = "C4" -> C4(p)
            [] Ev.from = "R5" -> R5(p) [] Ev.from = "R6" -> R6(p)
            [] Ev.from = "F0" -> F0(p) [] Ev.from = "F1" -> F1(p) [] Ev.from = "F2" -> F2(p) [] Ev.from = "F3" -> F3(p)
            [] OTHER -> FALSE
Obs == << <<cur' = Ev.cur, "current session differs">>,
          <<activeSeq' = Ev.aseq, "activeSeqno differs">>, <<freeSeq' = Ev.fseq, "freeSeqno differs">>,
          <<destr' = Ev.destr, "destructor try-lock differs">>, <<Cardinality(freeq') = Ev.qlen, "queue length differs">>,
          <<\A s \in 1..Len(Ev.live) : live'[s] = Ev.live[s], "a session's liveCount differs">>,
          <<\A s \in 1..Len(Ev.latch) : latch'[s] = Ev.latch[s], "a session's closed latch differs">>,
          <<\A s \in 1..Len(Ev.seq) : seq'[s] = Ev.seq[s], "a session's seqno differs">> >>
TInit == l = 1 /\ drift = "" /\ Init
IsStep == IF Ev.e # "S" THEN FALSE ELSE IF Ev.from = "" THEN FALSE ELSE ~(Ev.from = "idle" /\ Ev.pt \in {"idle", "done"})
Skip == /\ l <= N /\ ~IsStep /\ Ev.e # "AbInit" /\ l' = l + 1 /\ UNCHANGED <<vars, drift>>
TReset == /\ l <= N /\ Ev.e = "AbInit" /\ l' = l + 1 /\ UNCHANGED drift
          /\ cur' = 1 /\ nalloc' = 1
          /\ live' = [s \in Sess |-> 0] /\ latch' = [s \in Sess |-> 0] /\ seq' = [s \in Sess |-> 0]
          /\ activeSeq' = 0 /\ freeSeq' = 0 /\ destr' = 0 /\ mutex' = 0 /\ freeq' = {}
          /\ pc' = [p \in Procs |-> "idle"] /\ bs' = [p \in Procs |-> 0]
          /\ it' = [p \in Procs |-> 0] /\ ret' = [p \in Procs |-> "idle"]
          /\ nacq' = [p \in Procs |-> 0] /\ nfl' = [p \in Procs |-> 0]
          /\ held' = [p \in Procs |-> <<>>] /\ ntok' = 0 /\ released' = {}
          /\ heldAtCall' = [s \in Sess |-> {}] /\ flushTok' = [p \in Procs |-> {}]
          /\ destructed' = <<>> /\ nflushcalls' = 0
TStep == /\ l <= N /\ IsStep
         /\ l' = l + 1
         /\ Act(Ev.p) /\ pc'[Ev.p] = Target
         /\ drift' = Note(drift, First(Obs), "DRIFT")
TDone == l = N + 1 /\ UNCHANGED tvars
TNext == Skip \/ TReset \/ TStep \/ TDone
TSpec == TInit /\ [][TNext]_tvars
NoDrift == TRUE
=============================================================================
