SPECIFICATION TSpec
CONSTANTS
  Writers = {1, 2, 3}
  MaxOps = 8
  MaxNodes = 14
  OldLive = TRUE
  FIXD3 = TRUE
INVARIANT Good
CHECK_DEADLOCK TRUE
