SPECIFICATION BSpec
CONSTANTS
  NSeg = 3
  MaxItems = 4
  MaxLvl = 2
INVARIANT C18_Assembled
INVARIANT C18_Stats
CHECK_DEADLOCK FALSE
