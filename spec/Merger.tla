----------------------------- MODULE Merger -----------------------------
(* skiplist/merger.go transcribed: k skiplist iterators and a heap of (iterator, node) entries.
   FIXD8 = FALSE is the pinned commit: SeekFirst/Seek append to the heap without clearing it, so a
   re-seek in the middle of a scan leaves stale entries behind (wrong items, and finally a nil node
   when a stale entry's iterator is stepped past the end).  FIXD8 = TRUE clears the heap first.

   C18 (merge half): the iterator yields the sorted multiset union of the lists from the seek
   point; SeekFirst / Seek(x) at ANY point of a scan repositions it. *)
EXTENDS Integers, Sequences, FiniteSets, TLC

CONSTANTS NLists, Vals, MaxOps, FIXD8

VARIABLES lists,   \* list id -> strictly ascending sequence of values
          cur,     \* list id -> cursor index (Len+1 = at the tail sentinel, Len+2 = stepped past it: nil)
          heap,    \* sequence of [i, idx] entries (order irrelevant; pop takes any minimal one)
          curr,    \* value of the current node, 0 = nil (Valid() = FALSE)
          crashed, \* the code would dereference nil here
          exp, pos,\* ghost: expected remaining sequence and position in it
          nops

mvars == <<lists, cur, heap, curr, crashed, exp, pos, nops>>
L == 1..NLists

RECURSIVE SetToSeq(_)
SetToSeq(S) == IF S = {} THEN <<>> ELSE LET m == CHOOSE x \in S : \A y \in S : x <= y IN <<m>> \o SetToSeq(S \ {m})
RECURSIVE Merge2(_, _)
Merge2(a, b) == IF a = <<>> THEN b ELSE IF b = <<>> THEN a
                ELSE IF Head(a) <= Head(b) THEN <<Head(a)>> \o Merge2(Tail(a), b) ELSE <<Head(b)>> \o Merge2(a, Tail(b))
RECURSIVE MergeAll(_, _)
MergeAll(ls, i) == IF i > NLists THEN <<>> ELSE Merge2(ls[i], MergeAll(ls, i + 1))
From(q, x) == SelectSeq(q, LAMBDA v : v >= x)

MInit ==
  /\ lists \in [L -> {SetToSeq(S) : S \in SUBSET Vals}]
  /\ cur = [i \in L |-> 1] /\ heap = <<>> /\ curr = 0 /\ crashed = FALSE
  /\ exp = <<>> /\ pos = 1 /\ nops = 0

ValAt(i, idx) == IF idx <= Len(lists[i]) THEN lists[i][idx] ELSE 0
IterValid(i, c) == c # Len(lists[i]) + 1            \* skiplist Iterator.Valid(): curr != tail (nil counts as valid!)
SeekIdx(i, x) == LET S == {j \in 1..Len(lists[i]) : lists[i][j] >= x} IN
                 IF S = {} THEN Len(lists[i]) + 1 ELSE CHOOSE j \in S : \A m \in S : j <= m

RECURSIVE Entries(_, _)
Entries(c, i) == IF i > NLists THEN <<>>
                 ELSE (IF IterValid(i, c[i]) THEN <<[i |-> i, idx |-> c[i]]>> ELSE <<>>) \o Entries(c, i + 1)
RemoveAt(s, j) == SubSeq(s, 1, j - 1) \o SubSeq(s, j + 1, Len(s))

(* MergeIterator.Next applied to heap h and cursors c: pop any minimal entry, step its iterator, push *)
NextFrom(h, c) ==
  IF h = <<>> THEN {[heap |-> h, cur |-> c, curr |-> 0, crashed |-> FALSE]}
  ELSE IF \E j \in 1..Len(h) : ValAt(h[j].i, h[j].idx) = 0     \* a nil node in the heap: Less() dereferences it
       THEN {[heap |-> h, cur |-> c, curr |-> 0, crashed |-> TRUE]}
  ELSE { LET e == h[j]  i == e.i
             c1 == [c EXCEPT ![i] = @ + 1]
             h1 == RemoveAt(h, j)
             h2 == IF IterValid(i, c1[i]) THEN Append(h1, [i |-> i, idx |-> c1[i]]) ELSE h1
         IN [heap |-> h2, cur |-> c1, curr |-> ValAt(i, e.idx), crashed |-> c[i] > Len(lists[i]) + 1]
         : j \in {j \in 1..Len(h) : \A m \in 1..Len(h) : ValAt(h[j].i, h[j].idx) <= ValAt(h[m].i, h[m].idx)} }

Apply(r) == heap' = r.heap /\ cur' = r.cur /\ curr' = r.curr /\ crashed' = r.crashed
Tick == nops < MaxOps /\ ~crashed /\ nops' = nops + 1

SeekFirst ==
  /\ Tick
  /\ LET c == [i \in L |-> 1]
         h == (IF FIXD8 THEN <<>> ELSE heap) \o Entries(c, 1) IN
     \E r \in NextFrom(h, c) : Apply(r)
  /\ exp' = MergeAll(lists, 1) /\ pos' = 1
  /\ UNCHANGED lists

Seek(x) ==
  /\ Tick
  /\ LET c == [i \in L |-> SeekIdx(i, x)]
         h == (IF FIXD8 THEN <<>> ELSE heap) \o Entries(c, 1) IN
     \E r \in NextFrom(h, c) : Apply(r)
  /\ exp' = From(MergeAll(lists, 1), x) /\ pos' = 1
  /\ UNCHANGED lists
SeekFound(x) == \E i \in L : \E j \in 1..Len(lists[i]) : lists[i][j] = x

Next ==
  /\ Tick /\ curr # 0           \* callers step only a valid iterator
  /\ \E r \in NextFrom(heap, cur) : Apply(r)
  /\ pos' = pos + 1
  /\ UNCHANGED <<lists, exp>>

MNext == SeekFirst \/ (\E x \in Vals \cup {0, 99} : Seek(x)) \/ Next
MSpec == MInit /\ [][MNext]_mvars

Expected == IF pos <= Len(exp) THEN exp[pos] ELSE 0
C18_MergeExact == nops > 0 => curr = Expected
C18_NoCrash == ~crashed
=============================================================================
