SPECIFICATION Spec
CONSTANTS
  Procs = {p1, p2, p3}
  NSnap = 2
  MaxOpen = 2
  FIXD4 = TRUE
INVARIANT NoOwnerOfRetired
INVARIANT RetiredOnce
INVARIANT SentInOrder
INVARIANT CollectorNotStuck
CHECK_DEADLOCK FALSE
