SPECIFICATION TSpec
CONSTANTS
  Keys = {1,2,3,4,5,6,7,8}
  Buckets = {1,2,3,4,5,6,7,8}
  Gens = {1}
  MaxOps = 0
INVARIANT Good
CHECK_DEADLOCK TRUE
