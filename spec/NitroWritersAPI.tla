--------------------------- MODULE NitroWritersAPI ---------------------------
(* API-level judgement of the executions of driver `vh nw` (writers contending on one key under the gate).

   Trace_NitroWriters.tla follows the real writers step by step; a step that no model action matches means that the
   real control flow left the model, and by itself that is model drift, not a verdict.  The scenario in which it
   happens is then judged here, from facts that do not depend on the path the calls took:

     C03  two Delete2 calls that found the same item version both reported success ("DelRet" carries the version
          the call's lookup returned and the call's result; a version can be deleted once);
     C04  the allocator reports a double / invalid free or a damaged freed block, a node is returned to the
          allocator while a writer inside Delete2 still holds it, or a garbage list handed to a snapshot contains
          a freed node;
     C07  after Close a block is still live, or a node was not freed exactly once.

   If none of these facts occurs the rejection stands as what it is (exit 2, model drift). *)
EXTENDS Naturals, Sequences, TLC, Json
VARIABLES l, bad, wins
avars == <<l, bad, wins>>
TLog == ndJsonDeserialize("trace.ndjson")
Ev == TLog[l]
N == Len(TLog)
MaxId == 64
Note(old, new, tag) == IF old # "" THEN old
                       ELSE IF new # "" /\ PrintT(<<tag, l, new>>) THEN new ELSE new
None == [n \in 1..MaxId |-> 0]
TInit == l = 1 /\ bad = "" /\ wins = None
Step(e) == l <= N /\ Ev.e = e /\ l' = l + 1
TReset == Step("NwInit") /\ wins' = None /\ UNCHANGED bad
TDelRet == /\ Step("DelRet")
           /\ LET hit == Ev.res /\ Ev.x \in 1..MaxId IN
                /\ wins' = (IF hit THEN [wins EXCEPT ![Ev.x] = @ + 1] ELSE wins)
                /\ bad' = Note(bad, IF hit /\ wins[Ev.x] >= 1
                                      THEN "C03:two Delete2 calls that found the same item version both reported success"
                                      ELSE "", "BAD")
Facts ==
  IF Len(Ev.errs) > 0 THEN "C04:the allocator reports: " \o Ev.errs[1]
  ELSE IF Ev.damaged > 0 THEN "C04:a freed block was written to"
  ELSE IF \E i \in 1..Len(Ev.held) : Ev.held[i][3] = 1
         THEN "C04:a node was returned to the allocator while a writer, inside Delete2, still holds it"
  ELSE ""
TObs == Step("Obs") /\ bad' = Note(bad, Facts, "BAD") /\ UNCHANGED wins
TClosed == /\ Step("Closed") /\ UNCHANGED wins
           /\ bad' = Note(bad,
                IF Len(Ev.errs) > 0 THEN "C04:the allocator reports: " \o Ev.errs[1]
                ELSE IF Ev.live # 0 THEN "C07:after Close " \o ToString(Ev.live) \o " blocks were never returned to the allocator"
                ELSE IF \E i \in 1..Len(Ev.freed) : Ev.freed[i] # 1 THEN "C07:a node was not released by Close"
                ELSE IF Ev.damaged > 0 THEN "C04:a freed block was written to"
                ELSE "", "BAD")
TFault == Step("Fault") /\ bad' = Note(bad, "C04:" \o Ev.msg, "BAD") /\ UNCHANGED wins
TSkip == l <= N /\ Ev.e \in {"A", "NwEnd"} /\ l' = l + 1 /\ UNCHANGED <<bad, wins>>
TDone == l = N + 1 /\ UNCHANGED avars
TNext == TReset \/ TDelRet \/ TObs \/ TClosed \/ TFault \/ TSkip \/ TDone
TSpec == TInit /\ [][TNext]_avars
Good == bad = ""
=============================================================================
