------------------------- MODULE Trace_Merger -------------------------
(* Trace validation of skiplist.MergeIterator at API grain: after every SeekFirst / Seek / Next the
   recorded (Valid, item) must be the next element of the sorted multiset union of the input lists
   from the seek point (the abstract part of Merger.tla; the heap model is exercised by M1 and
   supplies the operation scripts). *)
EXTENDS Merger, Json, TLCExt
VARIABLES l, bad
tvars == <<mvars, l, bad>>
TLog == ndJsonDeserialize("trace.ndjson")
Ev == TLog[l]
N == Len(TLog)
First(cs) == LET F == {i \in 1..Len(cs) : ~cs[i][1]} IN
             IF F = {} THEN "" ELSE cs[CHOOSE i \in F : \A j \in F : i <= j][2]
Note(old, new, tag) == IF old # "" THEN old
                       ELSE IF new # "" /\ PrintT(<<tag, l, new>>) THEN new ELSE new
Step(e) == l <= N /\ Ev.e = e /\ l' = l + 1
RECURSIVE MergeSeqs(_, _)
MergeSeqs(ls, i) == IF i > Len(ls) THEN <<>> ELSE Merge2(ls[i], MergeSeqs(ls, i + 1))
ExpAt(e, p) == IF p <= Len(e) THEN e[p] ELSE 0
Conc == UNCHANGED <<cur, heap, curr, crashed, nops>>
Judge(extra) == bad' = Note(bad, First(<< <<~Ev.crashed, "C18:merge iterator panicked">> >> \o extra \o
                     << <<Ev.crashed \/ Ev.valid = (ExpAt(exp', pos') # 0), "C18:merge iterator Valid() differs from the sorted union">>,
                        <<Ev.crashed \/ ~Ev.valid \/ Ev.item = ExpAt(exp', pos'), "C18:merge iterator is not on the next item of the sorted multiset union">> >>), "BAD")
TInit == /\ l = 2 /\ bad = "" /\ TLog[1].e = "MInit" /\ lists = TLog[1].lists
         /\ cur = <<>> /\ heap = <<>> /\ curr = 0 /\ crashed = FALSE /\ exp = <<>> /\ pos = 1 /\ nops = 0
TReset == Step("MInit") /\ lists' = Ev.lists /\ exp' = <<>> /\ pos' = 1 /\ Conc /\ UNCHANGED bad
TSeekFirst == Step("SeekFirst") /\ exp' = MergeSeqs(lists, 1) /\ pos' = 1 /\ UNCHANGED lists /\ Conc /\ Judge(<<>>)
TSeek == /\ Step("Seek") /\ exp' = From(MergeSeqs(lists, 1), Ev.x) /\ pos' = 1 /\ UNCHANGED lists /\ Conc
         /\ Judge(<< <<Ev.crashed \/ Ev.found = (\E i \in 1..Len(lists) : \E j \in 1..Len(lists[i]) : lists[i][j] = Ev.x),
                       "C18:merge Seek reported the wrong 'found'">> >>)
TNext == /\ Step("Next") /\ UNCHANGED <<lists, exp>> /\ Conc
         /\ IF "skipped" \in DOMAIN Ev
              THEN pos' = pos /\ bad' = Note(bad, First(<< <<ExpAt(exp, pos) = 0, "C18:merge iterator ended early">> >>), "BAD")
              ELSE pos' = pos + 1 /\ Judge(<<>>)
(* a panic raised by a legal call sequence is behaviour of the real code (driver: guarded()) *)
TPanic == /\ l <= N /\ Ev.e = "Panic" /\ l' = l + 1 /\ UNCHANGED mvars
          /\ bad' = Note(bad, "C18:the call panicked: " \o Ev.msg \o " (" \o Ev.where \o ")", "BAD")
TDone == l = N + 1 /\ UNCHANGED tvars
TTNext == TReset \/ TSeekFirst \/ TSeek \/ TNext \/ TPanic \/ TDone
TSpec == TInit /\ [][TTNext]_tvars
Good == bad = ""
=============================================================================
