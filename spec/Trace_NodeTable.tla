------------------------- MODULE Trace_NodeTable -------------------------
(* Trace validation for nodetable: events recorded from the real nodetable.NodeTable are
   replayed through the NodeTable actions.  The property verdict (C20) compares every logged
   result and every post-operation observation with the ABSTRACT map `amap`; the concrete
   model (fast/slow tables, counters) is compared with the logged counters as binding
   evidence only (`drift`). *)
EXTENDS NodeTable, Json, TLCExt

VARIABLES l,      \* index of the next trace line
          bad,    \* "" or the name of the first failed property check
          drift   \* "" or the name of the first concrete-model mismatch
tvars == <<vars, l, bad, drift>>

TLog == ndJsonDeserialize("trace.ndjson")
Ev == TLog[l]
N == Len(TLog)

First(cs) == LET F == {i \in 1..Len(cs) : ~cs[i][1]} IN
             IF F = {} THEN "" ELSE cs[CHOOSE i \in F : \A j \in F : i <= j][2]
Note(old, new, tag) == IF old # "" THEN old
                       ELSE IF new # "" /\ PrintT(<<tag, l, new>>) THEN new ELSE new

Start(h) ==
  /\ hash' = [k \in Keys |-> IF k <= Len(h) THEN h[k] ELSE 1]
  /\ fast' = [b \in Buckets |-> NoEntry]
  /\ slow' = [b \in Buckets |-> <<>>]
  /\ fastCnt' = 0 /\ slowCnt' = 0 /\ conflicts' = 0
  /\ amap' = [k \in Keys |-> Nil]
  /\ nops' = 0

TInit ==
  /\ l = 2 /\ bad = "" /\ drift = ""
  /\ TLog[1].e = "Init"
  /\ hash = [k \in Keys |-> IF k <= Len(TLog[1].hash) THEN TLog[1].hash[k] ELSE 1]
  /\ fast = [b \in Buckets |-> NoEntry]
  /\ slow = [b \in Buckets |-> <<>>]
  /\ fastCnt = 0 /\ slowCnt = 0 /\ conflicts = 0
  /\ amap = [k \in Keys |-> Nil]
  /\ nops = 0

P(x) == <<x[1], x[2]>>   \* logged pointer [k, g] -> spec pointer

(* observations logged after every operation: Get of every key, ItemsCount, Stats() counters *)
ObsChecks(am) ==
  << <<\A k \in 1..Len(Ev.gets) : P(Ev.gets[k]) = am[k], "C20:Get of some key differs from the map">>,
     <<Ev.count = Cardinality({k \in Keys : am[k] # Nil}), "C20:ItemsCount differs from number of keys">> >>
DriftChecks ==
  << <<Ev.fc = fastCnt', "fastHTCount">>, <<Ev.sc = slowCnt', "slowHTCount">>,
     <<Ev.cf = conflicts', "conflicts">>, <<Ev.mem = 42 * (fastCnt' + slowCnt'), "MemoryInUse">> >>

TReset == /\ l <= N /\ Ev.e = "Init" /\ Start(Ev.hash) /\ l' = l + 1 /\ UNCHANGED <<bad, drift>>

TUpdate ==
  /\ l <= N /\ Ev.e = "Update" /\ l' = l + 1
  /\ Update(Ev.k, Ev.g) /\ nops' = nops + 1
  /\ bad' = Note(bad, First(<< <<Ev.updated = (amap[Ev.k] # Nil), "C20:Update reported wrong 'updated'">>,
                              <<P(Ev.old) = amap[Ev.k], "C20:Update returned wrong previous pointer">> >>
                            \o ObsChecks(amap')), "BAD")
  /\ drift' = Note(drift, First(DriftChecks), "DRIFT")

TRemove ==
  /\ l <= N /\ Ev.e = "Remove" /\ l' = l + 1
  /\ Remove(Ev.k) /\ nops' = nops + 1
  /\ bad' = Note(bad, First(<< <<Ev.ok = (amap[Ev.k] # Nil), "C20:Remove reported wrong success">>,
                              <<P(Ev.ptr) = amap[Ev.k], "C20:Remove returned wrong pointer">> >>
                            \o ObsChecks(amap')), "BAD")
  /\ drift' = Note(drift, First(DriftChecks), "DRIFT")

(* a panic raised by a legal call sequence is behaviour of the real code (driver: guarded()) *)
TPanic == /\ l <= N /\ Ev.e = "Panic" /\ l' = l + 1 /\ UNCHANGED <<vars, drift>>
          /\ bad' = Note(bad, "C20:the call panicked: " \o Ev.msg \o " (" \o Ev.where \o ")", "BAD")
TDone == l = N + 1 /\ UNCHANGED tvars

TNext == TReset \/ TUpdate \/ TRemove \/ TPanic \/ TDone
TSpec == TInit /\ [][TNext]_tvars

Good == bad = ""
=============================================================================
