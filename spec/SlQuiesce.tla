------------------------------ MODULE SlQuiesce ------------------------------
(* C14 / C04 at quiescence, judged on a walk of the real structure: every level is a strictly increasing
   chain ending at the tail sentinel and a sub-sequence of the level below, no deleted (marked) node is
   linked at any level, and the statistics (node count, per-level distribution, soft deletes, memory,
   allocations minus frees) equal what the walk measures; iteration yields level 0. *)
EXTENDS Integers, Sequences, FiniteSets, TLC, Json, TLCExt
VARIABLES l, bad
TLog == ndJsonDeserialize("trace.ndjson")
Ev == TLog[l]
N == Len(TLog)
First(cs) == LET F == {i \in 1..Len(cs) : ~cs[i][1]} IN
             IF F = {} THEN "" ELSE cs[CHOOSE i \in F : \A j \in F : i <= j][2]
Note(old, new, tag) == IF old # "" THEN old
                       ELSE IF new # "" /\ PrintT(<<tag, l, new>>) THEN new ELSE new
Rng(q) == {q[i] : i \in 1..Len(q)}
Asc(q) == \A i \in 1..(Len(q) - 1) : q[i] < q[i + 1]
Height(k) == Cardinality({j \in 1..Len(Ev.chains) : k \in Rng(Ev.chains[j])})
TInit == l = 1 /\ bad = ""
TQ == /\ l <= N /\ Ev.e = "Quiesce" /\ l' = l + 1
      /\ bad' = Note(bad, First(<<
          <<\A j \in 1..Len(Ev.chains) : Asc(Ev.chains[j]), "C14:a level is not a strictly increasing chain">>,
          <<\A j \in 1..Len(Ev.tailok) : Ev.tailok[j], "C14:a level does not end at the tail sentinel (cycle or broken link)">>,
          <<\A j \in 2..Len(Ev.chains) : Rng(Ev.chains[j]) \subseteq Rng(Ev.chains[j - 1]), "C14:an upper level is not a sub-sequence of the level below">>,
          <<Ev.marks = 0 /\ Ev.linkedmarked = 0, "C04:a deleted (marked) node is still linked at quiescence">>,
          <<Ev.scan = Ev.chains[1], "C13:an iterator at quiescence does not yield the set in order">>,
          <<Ev.nodes = Len(Ev.chains[1]), "C14:node count statistic differs from the walk">>,
          <<Ev.softdel = 0, "C14:soft-delete statistic is not zero at quiescence">>,
          <<Ev.statmem = Ev.walkmem, "C14:memory statistic differs from the walk">>,
          <<Ev.distabove = 0 /\ \A j \in 1..Len(Ev.dist) : Ev.dist[j] = Cardinality({k \in Rng(Ev.chains[1]) : Height(k) = j}),
            "C14:per-level node distribution differs from the walk (a live node is not linked at all levels up to its height)">> >>), "BAD")
TSkip == l <= N /\ Ev.e # "Quiesce" /\ l' = l + 1 /\ UNCHANGED bad
TDone == l = N + 1 /\ UNCHANGED <<l, bad>>
TSpec == TInit /\ [][TQ \/ TSkip \/ TDone]_<<l, bad>>
Good == bad = ""
=============================================================================
