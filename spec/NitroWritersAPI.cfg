SPECIFICATION TSpec
INVARIANT Good
CHECK_DEADLOCK TRUE
