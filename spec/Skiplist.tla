------------------------------ MODULE Skiplist ------------------------------
(* The lock-free skiplist of skiplist/skiplist.go, one action per shared-memory access.  A process label
   is the verif yield point at which the real goroutine is parked; the action taken from a label is the
   code between that yield point and the next one.

     idle  between two calls
     FP0   findPath (re)start                       FP1  before loading prev.next[i]
     FP2   before loading curr.next[i]              FP3  curr is marked: before the unlink CAS (helpDelete)
     FP4   unlink succeeded: before reloading prev.next[i]      FP5  before loading the new curr.next[i]
     I2    Insert4: own links set, before the level-0 publish CAS
     U1    Insert4: before loading (and fixing) the node's own link at level i
     U3    Insert4: before the predecessor CAS at level i
     S1    softDelete: before loading the victim's link at level i
     S2    softDelete: before the mark CAS at level i
     DS    deleteNode: victim marked by us, before the clean-up search
     IT0   Iterator.SeekFirst: before loading head.next[0]
     IN1   Iterator.Next: before loading curr.next[0]     IN2  Iterator.Next: curr is marked, before the unlink CAS

   Every word nx[n][l] = [p, m] is the 64-bit (successor, deleted-mark) word of the real node.
   The maximum level is fixed at Top (the harness raises Skiplist.level first).

   FIXK1 = FALSE is the pinned commit: (a) the deleter's clean-up search stops at the first item >= the
   victim, so an equal item inserted in front of the marked victim at an upper level hides it; (b) an
   insert overtaken by a delete of the same node links the already marked node at an upper level after
   the deleter's clean-up ran.  Either way a marked node stays linked at quiescence (and, with
   user-managed memory, is freed while linked).  TRUE = clean-up search runs past equal items and the
   inserter re-checks its own level-0 mark after linking.

   C13: NoDupKeys + fixed linearization points (publish CAS, level-0 mark CAS) + interval justification of
        failed operations (Asserts) + DeleteOnce.
   C14: QStruct.        C04 (structural half): NoMarkedLinked.
   C15: iterator processes (SeekFirst / Seek / Next at the grain of skiplist/iterator.go) with ghosts:
        IterNoBackwards, IterOnlyPresent, IterComplete. *)
EXTENDS Integers, Sequences, FiniteSets, TLC

CONSTANTS Procs, Keys, MaxOps, MaxNodes, Top, FIXK1,
          IterProcs,     \* processes that only drive an iterator (SeekFirst / Seek / Next); the others mutate
          InFlightDelN   \* TRUE: DeleteNode may target a node whose Insert has not returned yet (its pointer is not available to callers of the public API)

H == 0
T == MaxNodes + 1
INF == 1000000
Ids == 0..T
Lvls == 0..Top
Ref(n, m) == [p |-> n, m |-> m]

VARIABLES nd,       \* node id -> [key, h, nx: level -> [p, m], pub]
          nalloc,
          loc,      \* process -> local record
          nops,
          ever,     \* ghost: was the pending operation's key ever present / absent during its interval
          delwins,  \* ghost: node -> number of successful deletes of that node
          scan      \* ghost per process: [on, from, yields (sequence of node ids), some, all] of the scan in progress

vars == <<nd, nalloc, loc, nops, ever, delwins, scan>>

KeyOf(n) == IF n = H THEN -1 ELSE IF n = T THEN INF ELSE nd[n].key
Live(n) == n \in 1..nalloc /\ nd[n].pub /\ ~nd[n].nx[0].m
Abs == {nd[n].key : n \in {m \in 1..nalloc : Live(m)}}
NoNode == [key |-> 0, h |-> 0, nx |-> [l \in Lvls |-> Ref(T, FALSE)], pub |-> FALSE]
NoScan == [on |-> FALSE, from |-> -1, yields |-> <<>>, some |-> {}, all |-> {}, done |-> FALSE]
Idle == [pc |-> "idle", op |-> "none", k |-> 0, x |-> 0, i |-> 0, prev |-> 0, curr |-> 0, next |-> 0,
         preds |-> [l \in Lvls |-> 0], succs |-> [l \in Lvls |-> 0], ret |-> "none", marked |-> FALSE,
         res |-> "none", del |-> 0, cmp |-> 1, past |-> FALSE, lv |-> 0,
         ip |-> 0, ic |-> 0, iv |-> FALSE]        \* iterator cursor: prev, curr, valid

Init ==
  /\ nd = [n \in Ids |-> IF n = H THEN [key |-> -1, h |-> Top, nx |-> [l \in Lvls |-> Ref(T, FALSE)], pub |-> TRUE]
                   ELSE IF n = T THEN [key |-> INF, h |-> Top, nx |-> [l \in Lvls |-> Ref(T, FALSE)], pub |-> TRUE]
                   ELSE NoNode]
  /\ nalloc = 0 /\ loc = [p \in Procs |-> Idle] /\ nops = [p \in Procs |-> 0]
  /\ ever = [p \in Procs |-> [pres |-> FALSE, abs |-> FALSE]]
  /\ delwins = [n \in Ids |-> 0]
  /\ scan = [p \in Procs |-> NoScan]

L(p) == loc[p]
Set(p, r) == loc' = [loc EXCEPT ![p] = r]

(* an operation returns: the failed ones must be justified by the key's presence/absence during the call *)
Done(p, r, res) ==
  /\ Assert(r.op = "ins" /\ res = "false" => ever[p].pres \/ r.k \in Abs, "C13: Insert failed although the key was absent during the whole call")
  /\ Assert(r.op = "del" /\ res = "false" => ever[p].abs \/ r.k \notin Abs, "C13: Delete failed although the key was present during the whole call")
  /\ Assert(r.op = "look" /\ res = "false" => ever[p].abs \/ r.k \notin Abs, "C13: Lookup missed a key that was present during the whole call")
  /\ Assert(r.op = "look" /\ res = "true" => ever[p].pres \/ r.k \in Abs, "C13: Lookup found a key that was absent during the whole call")
  /\ Set(p, [Idle EXCEPT !.res = res, !.op = r.op, !.k = r.k, !.x = r.x, !.ip = r.ip, !.ic = r.ic, !.iv = r.iv])

(* ---- operation starts (the public call up to its first yield point) ---- *)
StartInsert(p, k, h) ==
  /\ L(p).pc = "idle" /\ nops[p] < MaxOps /\ nalloc < MaxNodes
  /\ nalloc' = nalloc + 1
  /\ nd' = [nd EXCEPT ![nalloc + 1] = [key |-> k, h |-> h, nx |-> [l \in Lvls |-> Ref(T, FALSE)], pub |-> FALSE]]
  /\ nops' = [nops EXCEPT ![p] = @ + 1] /\ UNCHANGED delwins
  /\ Set(p, [Idle EXCEPT !.pc = "FP0", !.op = "ins", !.k = k, !.x = nalloc + 1, !.ret = "ins", !.ip = L(p).ip, !.ic = L(p).ic, !.iv = L(p).iv])
StartDelete(p, k) ==
  /\ L(p).pc = "idle" /\ nops[p] < MaxOps
  /\ nops' = [nops EXCEPT ![p] = @ + 1] /\ UNCHANGED <<nd, nalloc, delwins>>
  /\ Set(p, [Idle EXCEPT !.pc = "FP0", !.op = "del", !.k = k, !.ret = "del", !.ip = L(p).ip, !.ic = L(p).ic, !.iv = L(p).iv])
StartLookup(p, k) ==
  /\ L(p).pc = "idle" /\ nops[p] < MaxOps
  /\ nops' = [nops EXCEPT ![p] = @ + 1] /\ UNCHANGED <<nd, nalloc, delwins>>
  /\ Set(p, [Idle EXCEPT !.pc = "FP0", !.op = "look", !.k = k, !.ret = "look", !.ip = L(p).ip, !.ic = L(p).ic, !.iv = L(p).iv])
StartDeleteNode(p, n) ==                 \* DeleteNode(n) on a node that was published
  /\ L(p).pc = "idle" /\ nops[p] < MaxOps /\ n \in 1..nalloc /\ nd[n].pub
  /\ InFlightDelN \/ \A q \in Procs : ~(L(q).pc # "idle" /\ L(q).op = "ins" /\ L(q).x = n)
  /\ nops' = [nops EXCEPT ![p] = @ + 1] /\ UNCHANGED <<nd, nalloc, delwins>>
  /\ Set(p, [Idle EXCEPT !.pc = "S1", !.op = "deln", !.k = nd[n].key, !.del = n, !.i = nd[n].h, !.ip = L(p).ip, !.ic = L(p).ic, !.iv = L(p).iv])

(* ---- findPath -- skiplist.go:214-253 ---- *)
FP0(p) == /\ L(p).pc = "FP0" /\ UNCHANGED <<nd, nalloc, nops, delwins>>
          /\ Set(p, [L(p) EXCEPT !.pc = "FP1", !.prev = H, !.i = Top, !.cmp = 1])
LoadCurr(p, lbl) == /\ L(p).pc = lbl /\ UNCHANGED <<nd, nalloc, nops, delwins>>
                    /\ Set(p, [L(p) EXCEPT !.pc = IF lbl = "FP1" THEN "FP2" ELSE "FP5", !.curr = nd[L(p).prev].nx[L(p).i].p])
FP1(p) == LoadCurr(p, "FP1")
FP4(p) == LoadCurr(p, "FP4")
Less(r, c) == KeyOf(c) < r.k \/ (r.past /\ KeyOf(c) = r.k /\ c # T)

(* what the caller of findPath does when the search is complete (no yield point in between) *)
AfterFind(p, r) ==
  CASE r.ret = "ins" ->
         IF r.cmp = 0
           THEN /\ Done(p, r, "false") /\ nd' = nd /\ UNCHANGED delwins          \* equal item present: node discarded
           ELSE /\ nd' = [nd EXCEPT ![r.x].nx = [l \in Lvls |-> IF l <= nd[r.x].h THEN Ref(r.succs[l], FALSE) ELSE @[l]]]
                /\ Set(p, [r EXCEPT !.pc = "I2"]) /\ UNCHANGED delwins
    [] r.ret = "upper" -> nd' = nd /\ Set(p, [r EXCEPT !.pc = "U1"]) /\ UNCHANGED delwins
    [] r.ret = "del" ->
         IF r.cmp # 0 THEN Done(p, r, "false") /\ nd' = nd /\ UNCHANGED delwins
         ELSE nd' = nd /\ UNCHANGED delwins
              /\ Set(p, [r EXCEPT !.pc = "S1", !.del = r.succs[0], !.i = nd[r.succs[0]].h, !.marked = FALSE])
    [] r.ret = "look" -> Done(p, r, IF r.cmp = 0 THEN "true" ELSE "false") /\ nd' = nd /\ UNCHANGED delwins
    [] r.ret = "clean" -> Done(p, r, "true") /\ nd' = nd /\ delwins' = [delwins EXCEPT ![r.del] = @ + 1]
    [] r.ret = "insclean" -> Done(p, r, "true") /\ nd' = nd /\ UNCHANGED delwins
    [] r.ret = "itseek" ->      \* Iterator.Seek: cursor at the search result
         nd' = nd /\ UNCHANGED delwins
         /\ Set(p, [Idle EXCEPT !.op = "itseek", !.k = r.k, !.res = "pos", !.ip = r.preds[0], !.ic = r.succs[0], !.iv = TRUE])
    [] r.ret = "itnext" ->      \* Iterator.Next lost the unlink race and re-searched its current item
         nd' = nd /\ UNCHANGED delwins
         /\ IF r.cmp = 0 /\ r.succs[0] = r.ic
              THEN Set(p, [r EXCEPT !.pc = "IN1", !.ip = r.preds[0], !.ic = r.succs[0]])      \* same node still there: retry
              ELSE Set(p, [Idle EXCEPT !.op = "itnext", !.res = "pos", !.ip = r.preds[0], !.ic = r.succs[0], !.iv = TRUE])

LoadNext(p, lbl) ==
  /\ L(p).pc = lbl /\ UNCHANGED <<nalloc, nops>>
  /\ LET r == L(p)  w == nd[r.curr].nx[r.i]  c == r.curr  i == r.i IN
     IF w.m /\ c # T THEN nd' = nd /\ Set(p, [r EXCEPT !.pc = "FP3", !.next = w.p]) /\ UNCHANGED delwins
     ELSE IF Less(r, c) THEN nd' = nd /\ Set(p, [r EXCEPT !.pc = "FP2", !.prev = c, !.curr = w.p]) /\ UNCHANGED delwins
     ELSE LET cv == IF KeyOf(c) = r.k THEN 0 ELSE 1
              r2 == [r EXCEPT !.preds[i] = r.prev, !.succs[i] = c, !.cmp = cv] IN
          IF i = 0 THEN AfterFind(p, r2)
          ELSE nd' = nd /\ Set(p, [r2 EXCEPT !.pc = "FP1", !.i = i - 1]) /\ UNCHANGED delwins
FP2(p) == LoadNext(p, "FP2")
FP5(p) == LoadNext(p, "FP5")
FP3(p) == /\ L(p).pc = "FP3" /\ UNCHANGED <<nalloc, nops, delwins>>
          /\ LET pr == L(p).prev i == L(p).i IN
             IF nd[pr].nx[i] = Ref(L(p).curr, FALSE)
               THEN /\ nd' = [nd EXCEPT ![pr].nx[i] = Ref(L(p).next, FALSE)]
                    /\ Set(p, [L(p) EXCEPT !.pc = "FP4"])
               ELSE /\ nd' = nd /\ Set(p, [L(p) EXCEPT !.pc = "FP0"])

(* ---- Insert4 -- skiplist.go:281-343 ---- *)
Finished(p, r) ==          \* label "finished:" of Insert4
  IF FIXK1 /\ nd'[r.x].nx[0].m
    THEN Set(p, [r EXCEPT !.pc = "FP0", !.ret = "insclean", !.past = TRUE])     \* overtaken by a delete: clean up after ourselves
    ELSE Done(p, r, "true")
I2(p) == /\ L(p).pc = "I2" /\ UNCHANGED <<nalloc, nops, delwins>>
         /\ LET r == L(p) pr == r.preds[0] IN
            IF nd[pr].nx[0] = Ref(r.succs[0], FALSE)
              THEN /\ nd' = [nd EXCEPT ![pr].nx[0] = Ref(r.x, FALSE), ![r.x].pub = TRUE]
                   /\ IF nd[r.x].h >= 1 THEN Set(p, [r EXCEPT !.pc = "U1", !.lv = 1]) ELSE Finished(p, r)
              ELSE /\ nd' = nd /\ Set(p, [r EXCEPT !.pc = "FP0", !.ret = "ins"])
U1(p) == /\ L(p).pc = "U1" /\ UNCHANGED <<nalloc, nops, delwins>>
         /\ LET r == L(p) w == nd[r.x].nx[r.lv] nxt == r.succs[r.lv] IN
            IF w.m THEN nd' = nd /\ Finished(p, r)
            ELSE /\ nd' = (IF w.p # nxt THEN [nd EXCEPT ![r.x].nx[r.lv] = Ref(nxt, FALSE)] ELSE nd)
                 /\ Set(p, [r EXCEPT !.pc = "U3"])
U3(p) == /\ L(p).pc = "U3" /\ UNCHANGED <<nalloc, nops, delwins>>
         /\ LET r == L(p) pr == r.preds[r.lv] i == r.lv IN
            IF nd[pr].nx[i] = Ref(r.succs[i], FALSE)
              THEN /\ nd' = [nd EXCEPT ![pr].nx[i] = Ref(r.x, FALSE)]
                   /\ IF i < nd[r.x].h THEN Set(p, [r EXCEPT !.pc = "U1", !.lv = i + 1]) ELSE Finished(p, r)
              ELSE nd' = nd /\ Set(p, [r EXCEPT !.pc = "FP0", !.ret = "upper"])

(* ---- softDelete / deleteNode -- skiplist.go:345-399 ---- *)
S1(p) == /\ L(p).pc = "S1" /\ UNCHANGED <<nd, nalloc, nops, delwins>>
         /\ LET r == L(p) w == nd[r.del].nx[r.i] IN
            IF w.m THEN (IF r.i = 0
                           THEN (IF r.marked THEN Set(p, [r EXCEPT !.pc = "DS"]) ELSE Done(p, r, "false"))
                           ELSE Set(p, [r EXCEPT !.i = r.i - 1]))
            ELSE Set(p, [r EXCEPT !.pc = "S2", !.next = w.p])
S2(p) == /\ L(p).pc = "S2" /\ UNCHANGED <<nalloc, nops, delwins>>
         /\ LET r == L(p) n == r.del i == r.i IN
            IF nd[n].nx[i] = Ref(r.next, FALSE)
              THEN nd' = [nd EXCEPT ![n].nx[i] = Ref(r.next, TRUE)] /\ Set(p, [r EXCEPT !.pc = "S1", !.marked = (r.marked \/ i = 0)])
              ELSE nd' = nd /\ Set(p, [r EXCEPT !.pc = "S1"])
DS(p) == /\ L(p).pc = "DS" /\ UNCHANGED <<nd, nalloc, nops, delwins>>
         /\ Set(p, [L(p) EXCEPT !.pc = "FP0", !.ret = "clean", !.past = FIXK1])

(* ---- Iterator -- skiplist/iterator.go ---- *)
StartSeekFirst(p) ==
  /\ L(p).pc = "idle" /\ nops[p] < MaxOps
  /\ nops' = [nops EXCEPT ![p] = @ + 1] /\ UNCHANGED <<nd, nalloc, delwins>>
  /\ Set(p, [Idle EXCEPT !.pc = "IT0", !.op = "itfirst", !.k = -1])
IT0(p) == /\ L(p).pc = "IT0" /\ UNCHANGED <<nd, nalloc, nops, delwins>>
          /\ Set(p, [Idle EXCEPT !.op = "itfirst", !.k = -1, !.res = "pos", !.ip = H, !.ic = nd[H].nx[0].p, !.iv = TRUE])
StartSeek(p, k) ==
  /\ L(p).pc = "idle" /\ nops[p] < MaxOps
  /\ nops' = [nops EXCEPT ![p] = @ + 1] /\ UNCHANGED <<nd, nalloc, delwins>>
  /\ Set(p, [Idle EXCEPT !.pc = "FP0", !.op = "itseek", !.k = k, !.ret = "itseek"])
ItValid(r) == r.iv /\ r.ic # T
StartNext(p) ==
  /\ L(p).pc = "idle" /\ nops[p] < MaxOps /\ ItValid(L(p))
  /\ nops' = [nops EXCEPT ![p] = @ + 1] /\ UNCHANGED <<nd, nalloc, delwins>>
  /\ Set(p, [Idle EXCEPT !.pc = "IN1", !.op = "itnext", !.k = KeyOf(L(p).ic), !.ip = L(p).ip, !.ic = L(p).ic, !.iv = TRUE])
IN1(p) == /\ L(p).pc = "IN1" /\ UNCHANGED <<nd, nalloc, nops, delwins>>
          /\ LET r == L(p) w == nd[r.ic].nx[0] IN
             IF w.m THEN Set(p, [r EXCEPT !.pc = "IN2", !.next = w.p])
             ELSE Set(p, [Idle EXCEPT !.op = "itnext", !.res = "pos", !.ip = r.ic, !.ic = w.p, !.iv = TRUE])
IN2(p) == /\ L(p).pc = "IN2" /\ UNCHANGED <<nalloc, nops, delwins>>
          /\ LET r == L(p) IN
             IF nd[r.ip].nx[0] = Ref(r.ic, FALSE)
               THEN /\ nd' = [nd EXCEPT ![r.ip].nx[0] = Ref(r.next, FALSE)]
                    /\ Set(p, [Idle EXCEPT !.op = "itnext", !.res = "pos", !.ip = r.ip, !.ic = r.next, !.iv = TRUE])
               ELSE /\ nd' = nd        \* lost the race: re-search the current item
                    /\ Set(p, [r EXCEPT !.pc = "FP0", !.k = KeyOf(r.ic), !.ret = "itnext", !.past = FALSE])

(* a deleted node counts as possibly present until it is physically unlinked at level 0: its Delete call has not
   returned before that, so the deletion may still be linearized later *)
RECURSIVE Reach0(_, _, _)
Reach0(f, n, fuel) == IF n = T \/ fuel = 0 THEN {} ELSE {n} \cup Reach0(f, f[n].nx[0].p, fuel - 1)
AbsLooseOf(f, na) == {f[n].key : n \in {m \in 1..na : f[m].pub /\ (~f[m].nx[0].m \/ m \in Reach0(f, f[H].nx[0].p, MaxNodes + 2))}}
(* ghost: what a scan has yielded and which keys were present at some / every moment of it *)
PosReached(p) == loc'[p].pc = "idle" /\ loc'[p].res = "pos" /\ loc[p].pc # "idle"
ScanStarts(p) == loc[p].pc = "idle" /\ loc'[p].pc # "idle" /\ loc'[p].op \in {"itfirst", "itseek"}    \* the call of SeekFirst / Seek
TrackScan == scan' = [p \in Procs |->
   LET s0 == IF ScanStarts(p)
               THEN [on |-> TRUE, from |-> loc'[p].k, yields |-> <<>>, some |-> AbsLooseOf(nd, nalloc), all |-> Abs, done |-> FALSE]
               ELSE scan[p]
       s1 == IF s0.on /\ ~s0.done THEN [s0 EXCEPT !.some = @ \cup AbsLooseOf(nd, nalloc) \cup AbsLooseOf(nd', nalloc'), !.all = @ \cap Abs \cap Abs'] ELSE s0
   IN IF PosReached(p) /\ s1.on
        THEN (IF ItValid(loc'[p]) THEN [s1 EXCEPT !.yields = Append(@, loc'[p].ic)] ELSE [s1 EXCEPT !.done = TRUE])
        ELSE s1]

Track == /\ TrackScan
         /\ ever' = [p \in Procs |-> IF loc'[p].pc = "idle" THEN [pres |-> FALSE, abs |-> FALSE]
                   ELSE [pres |-> ever[p].pres \/ (loc'[p].k \in Abs) \/ (loc'[p].k \in Abs'),
                         abs |-> ever[p].abs \/ (loc'[p].k \notin Abs) \/ (loc'[p].k \notin Abs')]]
SeekFirst(p) == p \in IterProcs /\ StartSeekFirst(p) /\ Track
Seek(p, k) == p \in IterProcs /\ StartSeek(p, k) /\ Track
ItNext(p) == p \in IterProcs /\ StartNext(p) /\ Track
aIT0(p) == IT0(p) /\ Track
aIN1(p) == IN1(p) /\ Track
aIN2(p) == IN2(p) /\ Track
(* named wrappers (so that TLC labels every transition with the action and the process) *)
Insert(p, k, h) == p \notin IterProcs /\ StartInsert(p, k, h) /\ Track
Delete(p, k) == p \notin IterProcs /\ StartDelete(p, k) /\ Track
Lookup(p, k) == p \notin IterProcs /\ StartLookup(p, k) /\ Track
DeleteNode(p, n) == p \notin IterProcs /\ StartDeleteNode(p, n) /\ Track
aFP0(p) == FP0(p) /\ Track
aFP1(p) == FP1(p) /\ Track
aFP2(p) == FP2(p) /\ Track
aFP3(p) == FP3(p) /\ Track
aFP4(p) == FP4(p) /\ Track
aFP5(p) == FP5(p) /\ Track
aI2(p) == I2(p) /\ Track
aU1(p) == U1(p) /\ Track
aU3(p) == U3(p) /\ Track
aS1(p) == S1(p) /\ Track
aS2(p) == S2(p) /\ Track
aDS(p) == DS(p) /\ Track
PNext(p) ==
           \/ (\E k \in Keys, h \in Lvls : Insert(p, k, h))
           \/ (\E k \in Keys : Delete(p, k) \/ Lookup(p, k))
           \/ (\E n \in 1..MaxNodes : DeleteNode(p, n))
           \/ aFP0(p) \/ aFP1(p) \/ aFP2(p) \/ aFP3(p) \/ aFP4(p) \/ aFP5(p)
           \/ aI2(p) \/ aU1(p) \/ aU3(p) \/ aS1(p) \/ aS2(p) \/ aDS(p)
           \/ SeekFirst(p) \/ (\E k \in Keys : Seek(p, k)) \/ ItNext(p)
           \/ aIT0(p) \/ aIN1(p) \/ aIN2(p)
Next == \E p \in Procs : PNext(p)
Spec == Init /\ [][Next]_vars
(* liveness (growth): a goroutine inside a call keeps running; nobody is obliged to start a call.  Then every call
   returns -- no search, insert, delete or iterator step can retry for ever once the other calls have finished
   (the structure is lock-free: a retry is always caused by another call's progress, and calls are finitely many). *)
InCall(p) == loc[p].pc # "idle" /\ PNext(p)
LiveSpec == Spec /\ \A p \in Procs : WF_vars(InCall(p))
EveryCallReturns == \A p \in Procs : (loc[p].pc # "idle") ~> (loc[p].pc = "idle")

(* ---- properties ---- *)
Quiescent == \A p \in Procs : loc[p].pc = "idle"
NoDupKeys == \A a, b \in 1..nalloc : Live(a) /\ Live(b) /\ a # b => nd[a].key # nd[b].key
DeleteOnce == \A n \in 1..nalloc : delwins[n] <= 1
RECURSIVE Chain(_, _, _)
Chain(n, l, fuel) == IF n = T \/ fuel = 0 THEN <<>> ELSE <<n>> \o Chain(nd[n].nx[l].p, l, fuel - 1)
ChainL(l) == Chain(nd[H].nx[l].p, l, MaxNodes + 2)
Range(s) == {s[i] : i \in 1..Len(s)}
Sorted(s) == \A i \in 1..(Len(s) - 1) : KeyOf(s[i]) < KeyOf(s[i + 1])
LiveSet == {n \in 1..nalloc : Live(n)}
(* C14: at quiescence every level is a strictly increasing chain of live nodes ending at the tail, a
   sub-sequence of the level below, and every live node is linked at all levels up to its height *)
QStruct == Quiescent =>
   /\ \A l \in Lvls : Len(ChainL(l)) <= MaxNodes /\ Sorted(SelectSeq(ChainL(l), LAMBDA n : Live(n)))
   /\ Range(ChainL(0)) \cap LiveSet = LiveSet
   /\ \A l \in 1..Top : Range(ChainL(l)) \cap LiveSet = {n \in LiveSet : nd[n].h >= l}
(* C15: an iterator never goes backwards (an equal key only as a different, re-inserted node), yields only keys
   that were present at some moment of its scan, and -- once the scan is complete -- has yielded every key
   that was present during the whole scan and lies at or after its start *)
YKeys(p) == [i \in 1..Len(scan[p].yields) |-> KeyOf(scan[p].yields[i])]
IterNoBackwards == \A p \in Procs : LET y == scan[p].yields IN
   \A i \in 1..(Len(y) - 1) : KeyOf(y[i]) < KeyOf(y[i + 1]) \/ (KeyOf(y[i]) = KeyOf(y[i + 1]) /\ y[i] # y[i + 1])
IterOnlyPresent == \A p \in Procs : \A i \in 1..Len(scan[p].yields) : KeyOf(scan[p].yields[i]) \in scan[p].some
IterSeekLands == \A p \in Procs : \A i \in 1..Len(scan[p].yields) : KeyOf(scan[p].yields[i]) >= scan[p].from
IterComplete == \A p \in Procs : scan[p].done =>
   \A k \in scan[p].all : k >= scan[p].from => \E i \in 1..Len(scan[p].yields) : KeyOf(scan[p].yields[i]) = k
(* C04, structural half: at quiescence no deleted (marked) node is reachable at any level *)
NoMarkedLinked == Quiescent => \A l \in Lvls : \A n \in Range(ChainL(l)) : Live(n)
=============================================================================
