SPECIFICATION Spec
CONSTANTS
  Procs = {p1, it1}
  IterProcs = {it1}
  Keys = {1, 2}
  MaxOps = 3
  MaxNodes = 3
  Top = 1
  InFlightDelN = FALSE
  FIXK1 = TRUE
INVARIANT NoDupKeys
INVARIANT QStruct
INVARIANT IterNoBackwards
INVARIANT IterOnlyPresent
INVARIANT IterSeekLands
INVARIANT IterComplete
CHECK_DEADLOCK FALSE
