SPECIFICATION BSpec
CONSTANTS
  Shards = {1, 2}
  ItemsIn <- MCItems21
  LoadConc = 1
  FIXD6 = TRUE
  FIXD7 = TRUE
  FIXD11 = TRUE
INVARIANT C12_NoSilentPartial
INVARIANT C12_CrashSafe
INVARIANT C05_StoreLoads
INVARIANT C11_DamageDetected
INVARIANT C11_MultiShard
CHECK_DEADLOCK FALSE
