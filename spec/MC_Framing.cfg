SPECIFICATION FSpec
CONSTANTS
  Alphabet = {0, 1, 255}
  MaxItemLen = 2
  MaxItems = 3
INVARIANT C19_RoundTrip
INVARIANT C19_Truncation
INVARIANT C19_Checksum
INVARIANT C19_KV
INVARIANT C19_CompareKV
CHECK_DEADLOCK FALSE
