---------------------------- MODULE NodeTable ----------------------------
(* nodetable/table.go transcribed: a fast table (one entry per 32-bit hash, with a conflict
   bit) and a slow table (overflow slice per hash).  One action per public call.
   Pointers are modelled as <<key, generation>> pairs: the real table asks the caller's
   keyEqual(ptr, key) whether the object behind a pointer carries the key.

   Property C20 (first half): the table refines a map  key -> pointer  for every hash function,
   including constant ones: results of Update/Remove/Get and ItemsCount. *)
EXTENDS Integers, Sequences, FiniteSets, TLC

CONSTANTS Keys,      \* set of key ids
          Buckets,   \* range of the hash function
          Gens,      \* pointer generations (distinguishes successive pointers of a key)
          MaxOps

VARIABLES hash,      \* the hash function, chosen once (all functions are explored)
          fast,      \* [Buckets -> [has, p, c]]   c = conflict bit
          slow,      \* [Buckets -> Seq(ptr)]      (map entry absent = empty sequence)
          fastCnt, slowCnt, conflicts,
          amap,      \* ghost: the abstract map, key -> ptr or Nil
          nops

vars == <<hash, fast, slow, fastCnt, slowCnt, conflicts, amap, nops>>

Nil == <<0, 0>>
Ptr(k, g) == <<k, g>>
KeyOf(p) == p[1]
NoEntry == [has |-> FALSE, p |-> Nil, c |-> FALSE]

Init ==
  /\ hash \in [Keys -> Buckets]
  /\ fast = [b \in Buckets |-> NoEntry]
  /\ slow = [b \in Buckets |-> <<>>]
  /\ fastCnt = 0 /\ slowCnt = 0 /\ conflicts = 0
  /\ amap = [k \in Keys |-> Nil]
  /\ nops = 0

(* find(): status, position in the overflow slice, flags -- table.go:242-274 *)
SlowPos(h, k) == LET S == {i \in 1..Len(slow[h]) : KeyOf(slow[h][i]) = k}
                 IN IF S = {} THEN 0 ELSE CHOOSE i \in S : \A j \in S : i <= j
Find(k) ==
  LET h == hash[k]  e == fast[h] IN
  IF e.has /\ KeyOf(e.p) = k THEN [st |-> "fast", pos |-> 0, h |-> h, has |-> TRUE, c |-> e.c]
  ELSE IF e.has /\ e.c /\ SlowPos(h, k) # 0 THEN [st |-> "slow", pos |-> SlowPos(h, k), h |-> h, has |-> TRUE, c |-> e.c]
  ELSE [st |-> "none", pos |-> 0, h |-> h, has |-> e.has, c |-> e.has /\ e.c]

(* results as functions of the concrete state *)
GetRes(k) == LET r == Find(k) IN
  IF r.st = "fast" THEN fast[r.h].p ELSE IF r.st = "slow" THEN slow[r.h][r.pos] ELSE Nil
UpdateRes(k) == [updated |-> Find(k).st # "none", old |-> GetRes(k)]
RemoveRes(k) == [ok |-> Find(k).st # "none", ptr |-> GetRes(k)]
ItemsCount == fastCnt + slowCnt

RemoveAt(s, i) == SubSeq(s, 1, i - 1) \o SubSeq(s, i + 1, Len(s))

(* Update -- table.go:123-159 *)
Update(k, g) ==
  LET r == Find(k)  h == r.h  p == Ptr(k, g) IN
  /\ IF r.st = "fast" THEN
          /\ fast' = [fast EXCEPT ![h].p = p]          \* conflict bit preserved
          /\ UNCHANGED <<slow, fastCnt, slowCnt, conflicts>>
     ELSE IF r.st = "slow" THEN
          /\ slow' = [slow EXCEPT ![h][r.pos] = p]
          /\ UNCHANGED <<fast, fastCnt, slowCnt, conflicts>>
     ELSE IF r.has THEN                                  \* hash present, other key: overflow
          /\ slow' = [slow EXCEPT ![h] = Append(@, p)]
          /\ slowCnt' = slowCnt + 1
          /\ IF ~r.c THEN fast' = [fast EXCEPT ![h].c = TRUE] /\ conflicts' = conflicts + 1
                     ELSE UNCHANGED <<fast, conflicts>>
          /\ UNCHANGED fastCnt
     ELSE /\ fast' = [fast EXCEPT ![h] = [has |-> TRUE, p |-> p, c |-> FALSE]]
          /\ fastCnt' = fastCnt + 1
          /\ UNCHANGED <<slow, slowCnt, conflicts>>
  /\ amap' = [amap EXCEPT ![k] = p]
  /\ UNCHANGED hash

(* Remove -- table.go:162-209 *)
Remove(k) ==
  LET r == Find(k)  h == r.h IN
  /\ IF r.st = "fast" THEN
          IF r.c THEN            \* promote the first overflow entry
             LET rest == Tail(slow[h]) IN
             /\ slow' = [slow EXCEPT ![h] = rest]
             /\ slowCnt' = slowCnt - 1
             /\ fast' = [fast EXCEPT ![h] = [has |-> TRUE, p |-> Head(slow[h]), c |-> rest # <<>>]]
             /\ conflicts' = IF rest = <<>> THEN conflicts - 1 ELSE conflicts
             /\ UNCHANGED fastCnt
          ELSE /\ fast' = [fast EXCEPT ![h] = NoEntry]
               /\ fastCnt' = fastCnt - 1
               /\ UNCHANGED <<slow, slowCnt, conflicts>>
     ELSE IF r.st = "slow" THEN
          LET rest == RemoveAt(slow[h], r.pos) IN
          /\ slow' = [slow EXCEPT ![h] = rest]
          /\ slowCnt' = slowCnt - 1
          /\ IF rest = <<>> THEN fast' = [fast EXCEPT ![h].c = FALSE] /\ conflicts' = conflicts - 1
                            ELSE UNCHANGED <<fast, conflicts>>
          /\ UNCHANGED fastCnt
     ELSE UNCHANGED <<fast, slow, fastCnt, slowCnt, conflicts>>
  /\ amap' = [amap EXCEPT ![k] = Nil]
  /\ UNCHANGED hash

Tick == nops < MaxOps /\ nops' = nops + 1
DoUpdate(k, g) == Tick /\ Update(k, g)
DoRemove(k) == Tick /\ Remove(k)
Next == \/ \E k \in Keys, g \in Gens : DoUpdate(k, g)
        \/ \E k \in Keys : DoRemove(k)

Spec == Init /\ [][Next]_vars

(* ---- C20: refinement of the abstract map ---- *)
Refines ==
  /\ \A k \in Keys : GetRes(k) = amap[k]
  /\ \A k \in Keys : UpdateRes(k) = [updated |-> amap[k] # Nil, old |-> amap[k]]
  /\ \A k \in Keys : RemoveRes(k) = [ok |-> amap[k] # Nil, ptr |-> amap[k]]
  /\ ItemsCount = Cardinality({k \in Keys : amap[k] # Nil})

(* structural invariants of the representation (what makes Refines inductive) *)
Shape ==
  /\ \A b \in Buckets : fast[b].c = (slow[b] # <<>>)
  /\ \A b \in Buckets : slow[b] # <<>> => fast[b].has
  /\ conflicts = Cardinality({b \in Buckets : slow[b] # <<>>})
  /\ fastCnt = Cardinality({b \in Buckets : fast[b].has})
  /\ \A b \in Buckets : fast[b].has => hash[KeyOf(fast[b].p)] = b
  /\ \A b \in Buckets : \A i \in 1..Len(slow[b]) : hash[KeyOf(slow[b][i])] = b
=============================================================================
