------------------------------ MODULE Backup ------------------------------
(* StoreToDisk / LoadFromDisk at file-system grain (nitro.go:888-1243, file.go).

   One action per file-system mutation of StoreToDisk: mkdir, creat of every shard file, the three
   syscalls of each manifest (creat, write, close), buffered item writes with flushes that may happen
   at any time the buffer is non-empty (a superset of the size-triggered flushes of bufio), the
   terminator, the final flush and the close of every shard file.  The environment may crash the
   process between any two mutations (buffers are lost) and may make every write fail from some point
   on (disk full / file-size limit).

   A shard file's content is always a prefix of its byte stream, abstracted to units:
   (length prefix, body) per item and one terminator unit.  LoadFromDisk is the operator Load(d).

   FIXD7 = FALSE is the pinned commit's order: manifests first, data flushed and closed only in deferred
   functions whose errors are discarded.  FIXD6 = FALSE is the pinned restore: manifest parse errors
   ignored, a worker that hits a read error exits.  TRUE = repaired behaviour.

   FIXD11 = FALSE: files.json may name one shard twice (a name altered into another listed name); the shard checksum is an
   XOR of per-item CRC32s, so two different shards often have the same value (worst case assumed here: whenever they hold the
   same number of items) and the per-position comparison accepts the wrong shard.

   C12: ret = "ok" => Load = exact;  a crash at any point leaves Load in {error, exact}.
   C11: every single-fault damage of a completed backup leaves Load in {error, exact}.
   C05 (file-system part): a successful store loads exactly. *)
EXTENDS Integers, Sequences, FiniteSets, TLC

CONSTANTS Shards,      \* set of shard ids
          ItemsIn,     \* shard -> number of items the scan writes to it
          LoadConc,    \* number of restore workers
          FIXD6, FIXD7,
          FIXD11       \* TRUE: the loader rejects a files manifest that names a shard twice

VARIABLES pc,        \* program counter of StoreToDisk
          disk,      \* shard -> [exists, n]   units on disk
          buf,       \* shard -> units accepted by the buffered writer, not yet on disk
          written,   \* shard -> items handed to WriteItem so far
          term,      \* shard -> terminator handed to the writer
          closed,    \* shard -> file closed
          man,       \* manifest -> "absent" | "empty" | "full"
          mstep,     \* progress inside the three-syscall manifest write: 0..3
          full,      \* the environment makes writes fail from now on
          werr,      \* shard -> a write/flush error is pending in the buffered writer (sticky)
          err,       \* StoreToDisk's error variable
          ret,       \* "none" | "ok" | "err"
          crashed

bkvars == <<pc, disk, buf, written, term, closed, man, mstep, full, werr, err, ret, crashed>>
Manifests == {"nitro", "files", "checksums"}
Total(s) == 2 * ItemsIn[s] + 1            \* units of the complete stream of shard s

BInit ==
  /\ pc = "mkdir"
  /\ disk = [s \in Shards |-> [exists |-> FALSE, n |-> 0]]
  /\ buf = [s \in Shards |-> 0] /\ written = [s \in Shards |-> 0]
  /\ term = [s \in Shards |-> FALSE] /\ closed = [s \in Shards |-> FALSE]
  /\ man = [m \in Manifests |-> "absent"] /\ mstep = 0
  /\ full = FALSE /\ werr = [s \in Shards |-> FALSE] /\ err = FALSE /\ ret = "none" /\ crashed = FALSE

Running == ret = "none" /\ ~crashed
Same(v) == UNCHANGED v

(* ---- environment ---- *)
Crash == /\ Running /\ crashed' = TRUE
         /\ UNCHANGED <<pc, disk, buf, written, term, closed, man, mstep, full, werr, err, ret>>
DiskFull == /\ Running /\ ~full /\ full' = TRUE
            /\ UNCHANGED <<pc, disk, buf, written, term, closed, man, mstep, werr, err, ret, crashed>>

(* ---- StoreToDisk ---- *)
MkDir == /\ Running /\ pc = "mkdir" /\ pc' = "creat"
         /\ UNCHANGED <<disk, buf, written, term, closed, man, mstep, full, werr, err, ret, crashed>>
Creat(s) == /\ Running /\ pc = "creat" /\ ~disk[s].exists
            /\ disk' = [disk EXCEPT ![s].exists = TRUE]
            /\ pc' = IF \A t \in Shards \ {s} : disk[t].exists THEN "nitro" ELSE "creat"
            /\ UNCHANGED <<buf, written, term, closed, man, mstep, full, werr, err, ret, crashed>>

(* ioutil.WriteFile = creat, write, close; a failing write leaves an empty file and sets err *)
WriteManifest(m, nextpc) ==
  /\ Running /\ pc = m
  /\ CASE mstep = 0 -> /\ man' = [man EXCEPT ![m] = "empty"] /\ mstep' = 1 /\ UNCHANGED <<pc, err>>
       [] mstep = 1 -> /\ (IF full THEN man' = man /\ err' = TRUE ELSE man' = [man EXCEPT ![m] = "full"] /\ err' = err)
                       /\ mstep' = 2 /\ UNCHANGED pc
       [] mstep = 2 -> /\ mstep' = 0 /\ pc' = (IF err THEN "fail" ELSE nextpc) /\ UNCHANGED <<man, err>>
  /\ UNCHANGED <<disk, buf, written, term, closed, full, werr, ret, crashed>>

(* the scan: any shard may receive its next item (concurrent visitor workers) *)
WriteItem(s) ==
  /\ Running /\ pc = "scan" /\ written[s] < ItemsIn[s]
  /\ written' = [written EXCEPT ![s] = @ + 1]
  /\ buf' = [buf EXCEPT ![s] = @ + 2]
  /\ UNCHANGED <<pc, disk, term, closed, man, mstep, full, werr, err, ret, crashed>>
(* the buffered writer flushes when its buffer fills: here at any time; a failing flush writes a part
   and leaves a sticky error that the next WriteItem reports to the visitor callback *)
AutoFlush(s) ==
  /\ Running /\ pc \in {"scan", "files", "checksums", "term"} /\ buf[s] > 0 /\ ~closed[s]
  /\ IF full /\ ~werr[s]
       THEN \E k \in 0..(buf[s] - 1) :
              /\ disk' = [disk EXCEPT ![s].n = @ + k] /\ buf' = [buf EXCEPT ![s] = @ - k]
              /\ werr' = [werr EXCEPT ![s] = TRUE]
       ELSE /\ ~werr[s] /\ disk' = [disk EXCEPT ![s].n = @ + buf[s]] /\ buf' = [buf EXCEPT ![s] = 0] /\ werr' = werr
  /\ UNCHANGED <<pc, written, term, closed, man, mstep, full, err, ret, crashed>>
ScanDone ==
  /\ Running /\ pc = "scan"
  /\ \/ /\ \A s \in Shards : written[s] = ItemsIn[s] /\ ~werr[s]
        /\ pc' = (IF FIXD7 THEN "term" ELSE "files") /\ err' = err
     \/ /\ \E s \in Shards : werr[s] /\ written[s] < ItemsIn[s]       \* WriteItem reports the sticky error
        /\ pc' = "fail" /\ err' = TRUE
  /\ UNCHANGED <<disk, buf, written, term, closed, man, mstep, full, werr, ret, crashed>>

(* rawFileWriter.Close: terminator, Flush, close(fd).  FIXD7: the Flush error is returned. *)
Terminate(s) ==
  /\ Running /\ pc \in {"term", "deferred"} /\ ~term[s] /\ ~closed[s]
  /\ term' = [term EXCEPT ![s] = TRUE]
  /\ buf' = (IF werr[s] THEN buf ELSE [buf EXCEPT ![s] = @ + 1])
  /\ UNCHANGED <<pc, disk, written, closed, man, mstep, full, werr, err, ret, crashed>>
FinalFlushClose(s) ==
  /\ Running /\ pc \in {"term", "deferred"} /\ term[s] /\ ~closed[s]
  /\ \/ /\ ~full /\ ~werr[s]
        /\ disk' = [disk EXCEPT ![s].n = @ + buf[s]] /\ buf' = [buf EXCEPT ![s] = 0]
        /\ err' = err /\ werr' = werr
     \/ /\ (full \/ werr[s])
        /\ \E k \in 0..(IF werr[s] THEN 0 ELSE buf[s]) :
             /\ k < buf[s] \/ buf[s] = 0 \/ werr[s]
             /\ disk' = [disk EXCEPT ![s].n = @ + k] /\ buf' = [buf EXCEPT ![s] = @ - k]
        /\ werr' = [werr EXCEPT ![s] = buf[s] > 0 \/ werr[s]]
        /\ err' = (IF pc = "term" /\ (buf[s] > 0 \/ werr[s]) THEN TRUE ELSE err)   \* deferred closes discard errors
  /\ closed' = [closed EXCEPT ![s] = TRUE]
  /\ UNCHANGED <<pc, written, term, man, mstep, full, ret, crashed>>
TermDone ==
  /\ Running /\ pc = "term" /\ \A s \in Shards : closed[s]
  /\ pc' = (IF err THEN "fail" ELSE "files")
  /\ UNCHANGED <<disk, buf, written, term, closed, man, mstep, full, werr, err, ret, crashed>>

(* return value is fixed here; with the pinned order the data files are closed afterwards *)
Decide ==
  /\ Running /\ pc \in {"done", "fail"}
  /\ IF FIXD7 \/ \A s \in Shards : closed[s]
       THEN ret' = (IF pc = "done" /\ ~err THEN "ok" ELSE "err") /\ pc' = "end"
       ELSE pc' = "deferred" /\ ret' = ret
  /\ UNCHANGED <<disk, buf, written, term, closed, man, mstep, full, werr, err, crashed>>
DeferredDone ==
  /\ Running /\ pc = "deferred" /\ \A s \in Shards : closed[s]
  /\ ret' = (IF err THEN "err" ELSE "ok") /\ pc' = "end"
  /\ UNCHANGED <<disk, buf, written, term, closed, man, mstep, full, werr, err, crashed>>
FailClose(s) ==      \* error paths close the writers in the deferred function, errors ignored
  /\ Running /\ pc = "fail" /\ FIXD7 /\ ~closed[s]
  /\ closed' = [closed EXCEPT ![s] = TRUE]
  /\ UNCHANGED <<pc, disk, buf, written, term, man, mstep, full, werr, err, ret, crashed>>

BNext ==
  \/ Crash \/ DiskFull \/ MkDir \/ ScanDone \/ TermDone \/ Decide \/ DeferredDone
  \/ \E s \in Shards : Creat(s) \/ WriteItem(s) \/ AutoFlush(s) \/ Terminate(s) \/ FinalFlushClose(s) \/ FailClose(s)
  \/ WriteManifest("nitro", "scan") \/ WriteManifest("files", "checksums") \/ WriteManifest("checksums", "done")
BSpec == BInit /\ [][BNext]_bkvars

(* ---- LoadFromDisk as an operator over a disk image ---- *)
ShardState(d, s) == IF ~d.sh[s].exists THEN "missing"
                    ELSE IF d.sh[s].n < Total(s) THEN "short"       \* any strict prefix: read error / no terminator
                    ELSE d.sh[s].c
(* d.names[p] = the shard file that position p of files.json names (the identity in an undamaged backup) *)
Used(d) == {d.names[p] : p \in Shards}
Renamed(d) == {p \in Shards : d.names[p] # p}
SameSum(s, t) == ItemsIn[s] = ItemsIn[t]      \* may the XOR-of-CRC32 checksums of two different shards coincide?  (worst case)
Load(d) ==
  IF d.man["nitro"] = "empty" THEN "error"
  ELSE IF d.man["files"] = "absent" THEN "error"
  ELSE IF d.man["files"] = "empty" THEN (IF FIXD6 THEN "error" ELSE "wrong")          \* Unmarshal error ignored: zero shards
  ELSE IF d.man["checksums"] = "empty" THEN (IF FIXD6 THEN "error" ELSE "panic")      \* short checksum slice indexed
  ELSE IF FIXD11 /\ Renamed(d) # {} THEN "error"                                      \* a name listed twice
  ELSE IF \E s \in Used(d) : ShardState(d, s) = "missing" THEN "error"
  ELSE LET bad == {s \in Used(d) : ShardState(d, s) = "short"} IN
       IF bad # {} THEN
          (IF FIXD6 THEN "error"
           \* pinned: a worker that hits a read error exits; the feeder blocks once no worker is left
           ELSE IF Cardinality(bad) >= LoadConc /\ Cardinality(Shards) > Cardinality(bad) THEN "hang" ELSE "error")
       ELSE IF \E s \in Used(d) : ShardState(d, s) = "altered" THEN
               (IF d.man["checksums"] = "full" THEN "error" ELSE "wrong")
       ELSE IF d.man["nitro"] = "absent" /\ (\E s \in Shards : ItemsIn[s] > 0) THEN
               (IF d.man["checksums"] = "full" THEN "error" ELSE "wrong")             \* v1 frames read as v0: empty shards
       ELSE IF \E p \in Renamed(d) : ItemsIn[p] > 0 \/ ItemsIn[d.names[p]] > 0 THEN      \* another shard's items in place of p's
               (IF d.man["checksums"] = "full" /\ \E p \in Renamed(d) : ~SameSum(p, d.names[p]) THEN "error" ELSE "wrong")
       ELSE "exact"

Image == [man |-> man, sh |-> [s \in Shards |-> [exists |-> disk[s].exists, n |-> disk[s].n, c |-> "intact"]],
          names |-> [s \in Shards |-> s]]

(* ---- properties ---- *)
C12_NoSilentPartial == ret = "ok" => Load(Image) = "exact"
C12_CrashSafe == crashed => Load(Image) \in {"error", "exact"}
C05_StoreLoads == (ret = "ok" /\ ~full) => Load(Image) = "exact"

(* single-fault damages of a completed backup *)
Damages(d) ==
     {[d EXCEPT !.man[m] = "absent"] : m \in Manifests}
  \cup {[d EXCEPT !.man[m] = "empty"] : m \in Manifests}                                  \* truncated / garbled manifest
  \cup {[d EXCEPT !.sh[s].exists = FALSE] : s \in Shards}
  \cup UNION {{[d EXCEPT !.sh[s].n = k] : k \in 0..Total(s)} : s \in Shards}              \* truncation at every unit
  \cup {[d EXCEPT !.sh[s].c = "altered"] : s \in Shards}
  \cup {[d EXCEPT !.names[p] = t] : p \in Shards, t \in Shards}                            \* a listed name altered into another listed name
C11_DamageDetected == ret = "ok" => \A d \in Damages(Image) : d = Image \/ Load(d) \in {"error", "exact"}
C11_MultiShard == ret = "ok" => \A S \in SUBSET Shards :
                     Load([Image EXCEPT !.sh = [s \in Shards |-> IF s \in S THEN [Image.sh[s] EXCEPT !.n = 0] ELSE Image.sh[s]]]) \in {"error", "exact"}
=============================================================================
