------------------------------- MODULE IterAPI -------------------------------
(* C15 judged from a call/return log of a skiplist under concurrent modification (gate-serialised or
   free-running; Call is logged before a mutator's call starts, Ret after it returned, ItCall before
   SeekFirst / Seek / Next is called and ItPos after it returned with Valid() and the current item).
   Only facts that hold under EVERY linearization are used, so the verdicts are sound:
     definitely present:  an Insert of k has returned (either result) and no Delete/DeleteNode of k has been
                          called since and none is in progress;
     definitely absent:   k was never inserted, or a Delete of k has returned and no Insert of k has been
                          called since and none is in progress.
   For a scan (from SeekFirst/Seek to the first invalid position, or the next re-seek):
     - keys never decrease; an equal key twice in a row only if a delete of that key was called during the scan;
     - no yielded key was definitely absent during the whole scan;
     - at the end, every key definitely present during the whole scan and >= the start key was yielded;
     - every yielded key is >= the seek target. *)
EXTENDS Integers, Sequences, FiniteSets, TLC, Json, TLCExt
VARIABLES l, bad, pIns, pDel, defP, defA, known, sc, pendK   \* known = keys whose pending insert and delete calls overlap
avars == <<l, bad, pIns, pDel, defP, defA, known, sc, pendK>>
TLog == ndJsonDeserialize("trace.ndjson")
Ev == TLog[l]
N == Len(TLog)
KeysU == 0..40
First(cs) == LET F == {i \in 1..Len(cs) : ~cs[i][1]} IN
             IF F = {} THEN "" ELSE cs[CHOOSE i \in F : \A j \in F : i <= j][2]
Note(old, new, tag) == IF old # "" THEN old
                       ELSE IF new # "" /\ PrintT(<<tag, l, new>>) THEN new ELSE new
NoSc == [on |-> FALSE, from |-> -1, last |-> -1, seen |-> {}, stable |-> {}, absent |-> {}, deld |-> {}]
Fresh(procs) == /\ pIns' = [k \in KeysU |-> 0] /\ pDel' = [k \in KeysU |-> 0] /\ defP' = {} /\ defA' = KeysU
                /\ known' = {} /\ sc' = [p \in procs |-> NoSc] /\ pendK' = [p \in procs |-> [k |-> 0, op |-> "none"]]
TInit == /\ l = 2 /\ bad = "" /\ TLog[1].e = "SlInit"
         /\ pIns = [k \in KeysU |-> 0] /\ pDel = [k \in KeysU |-> 0] /\ defP = {} /\ defA = KeysU /\ known = {}
         /\ sc = [p \in {TLog[1].procs[i] : i \in 1..Len(TLog[1].procs)} |-> NoSc]
         /\ pendK = [p \in {TLog[1].procs[i] : i \in 1..Len(TLog[1].procs)} |-> [k |-> 0, op |-> "none"]]
Step(e) == l <= N /\ Ev.e = e /\ l' = l + 1
TReset == Step("SlInit") /\ Fresh({Ev.procs[i] : i \in 1..Len(Ev.procs)}) /\ UNCHANGED bad
TSkip == /\ l <= N /\ Ev.e \in {"S", "SlEnd", "Quiesce", "Walk"} /\ l' = l + 1
         /\ UNCHANGED <<bad, pIns, pDel, defP, defA, known, sc, pendK>>
IsDel(op) == op \in {"del", "deln"}
TCall ==
  /\ Step("Call")
  /\ pendK' = [pendK EXCEPT ![Ev.p] = [k |-> Ev.k, op |-> Ev.op]]
  /\ pIns' = (IF Ev.op = "ins" THEN [pIns EXCEPT ![Ev.k] = @ + 1] ELSE pIns)
  /\ pDel' = (IF IsDel(Ev.op) THEN [pDel EXCEPT ![Ev.k] = @ + 1] ELSE pDel)
  /\ defA' = (IF Ev.op = "ins" THEN defA \ {Ev.k} ELSE defA)
  /\ defP' = (IF IsDel(Ev.op) THEN defP \ {Ev.k} ELSE defP)
  /\ sc' = [p \in DOMAIN sc |-> IF ~sc[p].on THEN sc[p]
               ELSE IF Ev.op = "ins" THEN [sc[p] EXCEPT !.absent = @ \ {Ev.k}]
               ELSE IF IsDel(Ev.op) THEN [sc[p] EXCEPT !.stable = @ \ {Ev.k}, !.deld = @ \cup {Ev.k}]
               ELSE sc[p]]
  /\ known' = (IF (Ev.op = "ins" /\ pDel[Ev.k] > 0) \/ (IsDel(Ev.op) /\ pIns[Ev.k] > 0) THEN known \cup {Ev.k} ELSE known)   \* overlapping insert and delete: outcome unknown
  /\ UNCHANGED bad
TRet ==
  /\ Step("Ret")
  /\ LET k == pendK[Ev.p].k  op == pendK[Ev.p].op
         ni == IF op = "ins" THEN pIns[k] - 1 ELSE pIns[k]
         ndl == IF IsDel(op) THEN pDel[k] - 1 ELSE pDel[k] IN
     /\ pIns' = [pIns EXCEPT ![k] = ni] /\ pDel' = [pDel EXCEPT ![k] = ndl]
     /\ defP' = (IF op = "ins" /\ ni = 0 /\ ndl = 0 /\ k \notin known THEN defP \cup {k} ELSE defP)
     /\ defA' = (IF op = "del" /\ ni = 0 /\ ndl = 0 /\ k \notin known THEN defA \cup {k} ELSE defA)
     /\ known' = (IF op \in {"ins", "del", "deln"} /\ ni = 0 /\ ndl = 0 THEN known \ {k} ELSE known)
  /\ pendK' = [pendK EXCEPT ![Ev.p] = [k |-> 0, op |-> "none"]]
  /\ UNCHANGED <<bad, sc>>
PendDel == {k \in KeysU : pDel[k] > 0}
TItCall ==
  /\ Step("ItCall")
  /\ sc' = (IF Ev.op \in {"itfirst", "itseek"}
              THEN [sc EXCEPT ![Ev.p] = [on |-> TRUE, from |-> (IF Ev.op = "itseek" THEN Ev.x ELSE -1), last |-> -1, seen |-> {},
                                         stable |-> defP, absent |-> defA, deld |-> PendDel]]
              ELSE sc)
  /\ UNCHANGED <<bad, pIns, pDel, defP, defA, known, pendK>>
TItPos ==
  /\ Step("ItPos")
  /\ LET s == sc[Ev.p] IN
     IF ~s.on THEN UNCHANGED <<bad, sc>>
     ELSE IF Ev.valid THEN
          /\ sc' = [sc EXCEPT ![Ev.p].last = Ev.k, ![Ev.p].seen = @ \cup {Ev.k}]
          /\ bad' = Note(bad, First(<<
               <<Ev.k > s.last \/ (Ev.k = s.last /\ (Ev.k \in s.deld \/ Ev.refresh)), "C15:the iterator went backwards (or repeated an item that was not deleted and re-inserted meanwhile)">>,
               <<Ev.k \notin s.absent, "C15:the iterator returned an item that was absent during the whole scan">>,
               <<Ev.k >= s.from, "C15:Seek landed before its target">> >>), "BAD")
     ELSE /\ sc' = [sc EXCEPT ![Ev.p] = NoSc]
          /\ bad' = Note(bad, First(<<
               <<\A k \in s.stable : k >= s.from => k \in s.seen, "C15:the iterator skipped an item that was present during the whole scan">> >>), "BAD")
  /\ UNCHANGED <<pIns, pDel, defP, defA, known, pendK>>
TDone == l = N + 1 /\ UNCHANGED avars
TPanic == /\ l <= N /\ Ev.e = "Panic" /\ l' = l + 1 /\ UNCHANGED <<pIns, pDel, defP, defA, known, sc, pendK>>
          /\ bad' = Note(bad, "C15:the skiplist panicked on a legal call sequence: " \o Ev.msg \o " (" \o Ev.where \o ")", "BAD")
TNext == TReset \/ TSkip \/ TCall \/ TRet \/ TItCall \/ TItPos \/ TPanic \/ TDone
TSpec == TInit /\ [][TNext]_avars
Good == bad = ""
=============================================================================
