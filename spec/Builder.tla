----------------------------- MODULE Builder -----------------------------
(* skiplist/builder.go transcribed: segments are filled with ascending items (Segment.Add links the
   new node behind the segment's per-level tail), Assemble chains the segments per level and hooks
   the head and tail sentinels.  Node levels are random in the code, nondeterministic here.

   C18 (builder half): after Assemble, for every level l the chain from the head sentinel visits
   exactly the nodes of height >= l, in the order of the concatenation of the segments, and ends
   at the tail sentinel; the merged statistics count every node once at its level. *)
EXTENDS Integers, Sequences, FiniteSets, TLC

CONSTANTS NSeg,       \* number of segments
          MaxItems,   \* total number of items added over all segments
          MaxLvl      \* node levels 0..MaxLvl

VARIABLES segs,      \* segment -> sequence of node ids in Add order
          lvl,       \* node id -> level
          shead, stail,   \* segment -> level -> node id or 0   (Segment.head / Segment.tail)
          nx,        \* node id -> level -> successor id (0 = unset/nil), HEAD = -1, TAIL = -2
          nnodes,
          cnt,       \* segment -> level -> count   (Segment.sts.levelNodesCount)
          built,     \* "filling" | "assembled"
          gcount     \* level -> count after Merge of all segment statistics

bvars == <<segs, lvl, shead, stail, nx, nnodes, cnt, built, gcount>>
HEAD == -1
TAIL == -2
Lvls == 0..MaxLvl
Segs == 1..NSeg
Nodes == 1..MaxItems

BInit ==
  /\ segs = [s \in Segs |-> <<>>]
  /\ lvl = [n \in Nodes |-> 0]
  /\ shead = [s \in Segs |-> [l \in Lvls |-> 0]]
  /\ stail = [s \in Segs |-> [l \in Lvls |-> 0]]
  /\ nx = [n \in Nodes \cup {HEAD} |-> [l \in Lvls |-> IF n = HEAD THEN TAIL ELSE 0]]
  /\ nnodes = 0
  /\ cnt = [s \in Segs |-> [l \in Lvls |-> 0]]
  /\ built = "filling"
  /\ gcount = [l \in Lvls |-> 0]

(* Segment.Add -- builder.go:35-54 (items are the node ids themselves: ascending by construction
   only if the caller adds ascending items; the harness does) *)
Add(s, h) ==
  /\ built = "filling" /\ nnodes < MaxItems
  /\ LET x == nnodes + 1 IN
     /\ nnodes' = x
     /\ lvl' = [lvl EXCEPT ![x] = h]
     /\ segs' = [segs EXCEPT ![s] = Append(@, x)]
     /\ cnt' = [cnt EXCEPT ![s][h] = @ + 1]
     /\ nx' = [n \in Nodes \cup {HEAD} |-> [l \in Lvls |->
                 IF l <= h /\ stail[s][l] = n /\ n # 0 THEN x ELSE nx[n][l]]]
     /\ shead' = [shead EXCEPT ![s] = [l \in Lvls |-> IF l <= h /\ stail[s][l] = 0 THEN x ELSE shead[s][l]]]
     /\ stail' = [stail EXCEPT ![s] = [l \in Lvls |-> IF l <= h THEN x ELSE stail[s][l]]]
  /\ UNCHANGED <<built, gcount>>

(* Builder.Assemble -- builder.go:78-111, the segment loop unrolled as a fold *)
RECURSIVE Chain(_, _, _, _)
\* fold over segments s..NSeg at level l: returns [nx, head, tail]
Chain(s, l, acc, dummy) ==
  IF s > NSeg THEN acc
  ELSE LET n1 == IF acc.tail # 0 /\ shead[s][l] # 0
                   THEN [acc EXCEPT !.nx = [@ EXCEPT ![acc.tail][l] = shead[s][l]]]
                   ELSE IF acc.head = 0 /\ shead[s][l] # 0 THEN [acc EXCEPT !.head = shead[s][l]] ELSE acc
           n2 == IF stail[s][l] # 0 THEN [n1 EXCEPT !.tail = stail[s][l]] ELSE n1
       IN Chain(s + 1, l, n2, dummy)

RECURSIVE AssembleLvl(_, _)
AssembleLvl(l, f) ==
  IF l > MaxLvl THEN f
  ELSE LET c == Chain(1, l, [nx |-> f, head |-> 0, tail |-> 0], 0)
           f1 == IF c.head # 0 THEN [c.nx EXCEPT ![HEAD][l] = c.head] ELSE c.nx
           f2 == IF c.tail # 0 THEN [f1 EXCEPT ![c.tail][l] = TAIL] ELSE f1
       IN AssembleLvl(l + 1, f2)

RECURSIVE SumSeg(_, _)
SumSeg(s, l) == IF s > NSeg THEN 0 ELSE cnt[s][l] + SumSeg(s + 1, l)

Assemble ==
  /\ built = "filling"
  /\ nx' = AssembleLvl(0, nx)
  /\ gcount' = [l \in Lvls |-> SumSeg(1, l)]
  /\ built' = "assembled"
  /\ UNCHANGED <<segs, lvl, shead, stail, nnodes, cnt>>

BNext == (\E s \in Segs, h \in Lvls : Add(s, h)) \/ Assemble
BSpec == BInit /\ [][BNext]_bvars

(* ---- expected result ---- *)
RECURSIVE Concat(_)
Concat(s) == IF s > NSeg THEN <<>> ELSE segs[s] \o Concat(s + 1)
AtLevel(q, l) == SelectSeq(q, LAMBDA n : lvl[n] >= l)
RECURSIVE WalkF(_, _, _, _)
WalkF(f, n, l, fuel) == IF n = TAIL \/ n = 0 \/ fuel = 0 THEN <<>> ELSE <<n>> \o WalkF(f, f[n][l], l, fuel - 1)
LevelChainOf(f, l) == WalkF(f, f[HEAD][l], l, MaxItems + 1)
LevelChain(l) == LevelChainOf(nx, l)
RECURSIVE EndsAtTail(_, _, _)
EndsAtTail(n, l, fuel) == IF n = TAIL THEN TRUE ELSE IF n = 0 \/ fuel = 0 THEN FALSE ELSE EndsAtTail(nx[n][l], l, fuel - 1)

C18_Assembled ==
  built = "assembled" =>
    \A l \in Lvls : /\ LevelChain(l) = AtLevel(Concat(1), l)
                    /\ EndsAtTail(nx[HEAD][l], l, MaxItems + 1)
C18_Stats ==
  built = "assembled" =>
    \A l \in Lvls : gcount[l] = Cardinality({n \in 1..nnodes : lvl[n] = l})
=============================================================================
