------------------------- MODULE Trace_Backup -------------------------
(* Judges recorded backup/restore experiments on the real code (C11, C12):
     Gen        a database was built and stored by a child process (view = scan of the stored snapshot)
     Sys        one file-system mutation of that StoreToDisk, from strace, in order
     CrashLoad  LoadFromDisk of the directory materialised from the first k mutations
     FsizeStore StoreToDisk under a file-size limit + LoadFromDisk of what it left
     Damage     LoadFromDisk of the completed backup with one fault (or a multi-shard combination)
   Outcomes allowed by the properties are exactly those Backup.tla's Load operator can return for a
   correct implementation: "error" or "exact".  The order of the Sys events is compared with the order
   of Backup.tla's actions (creat all shards; nitro.json; data; every shard closed; files.json;
   checksums.json) as binding evidence (drift). *)
EXTENDS Integers, Sequences, FiniteSets, TLC, Json, TLCExt
VARIABLES l, bad, drift, view, phase, created, closedf, full
tvars == <<l, bad, drift, view, phase, created, closedf, full>>
TLog == ndJsonDeserialize("trace.ndjson")
Ev == TLog[l]
N == Len(TLog)
First(cs) == LET F == {i \in 1..Len(cs) : ~cs[i][1]} IN
             IF F = {} THEN "" ELSE cs[CHOOSE i \in F : \A j \in F : i <= j][2]
Note(old, new, tag) == IF old # "" THEN old
                       ELSE IF new # "" /\ PrintT(<<tag, l, new>>) THEN new ELSE new
Step(e) == l <= N /\ Ev.e = e /\ l' = l + 1
Exact == Ev.outcome = "ok" /\ Ev.items = view /\ Ev.count = Len(view)
Allowed(p) == << <<Ev.outcome # "panic", p \o ":LoadFromDisk panicked">>,
                 <<Ev.outcome # "hang", p \o ":LoadFromDisk did not terminate (feeder blocked, no worker left)">>,
                 <<Ev.outcome = "ok" => Exact, p \o ":LoadFromDisk silently returned an item set different from the stored snapshot">>,
                 <<Ev.outcome \in {"ok", "err", "slow"}, p \o ":unexpected outcome">>,
                 <<("leak" \in DOMAIN Ev /\ Ev.outcome \in {"ok", "err"}) => Ev.leak = 0,
                   "C07:blocks allocated by LoadFromDisk (successful or failed) were not returned to the allocator by Close">>,
                 <<("allocerrs" \in DOMAIN Ev /\ Ev.outcome \in {"ok", "err"}) => Ev.allocerrs = 0,
                   "C04:LoadFromDisk / Close freed a block twice or freed a pointer that was never allocated">> >>

TInit == l = 1 /\ bad = "" /\ drift = "" /\ view = <<>> /\ phase = "mkdir" /\ created = {} /\ closedf = {} /\ full = {}
TGen == /\ Step("Gen") /\ view' = Ev.view /\ phase' = "mkdir" /\ created' = {} /\ closedf' = {} /\ full' = {}
        /\ bad' = Note(bad, First(<< <<Ev.ret = "ok", "C05:StoreToDisk failed without any fault">> >>), "BAD") /\ UNCHANGED drift

Manifest(f) == f \in {"nitro.json", "files.json", "checksums.json"}
File == IF Ev.shard >= 0 THEN "shard-" \o ToString(Ev.shard) ELSE Ev.file
AllShards == {"shard-" \o ToString(i) : i \in 0..(Ev.nshards - 1)}
SysOK ==
  CASE Ev.op = "mkdir" -> "nitro.json" \notin created
    [] Ev.op = "creat" /\ Ev.shard >= 0 -> "nitro.json" \notin created
    [] Ev.op = "creat" /\ Ev.file = "nitro.json" -> AllShards \subseteq created
    [] Ev.op = "creat" /\ Ev.file = "files.json" -> AllShards \subseteq closedf /\ "nitro.json" \in full
    [] Ev.op = "creat" /\ Ev.file = "checksums.json" -> "files.json" \in closedf /\ "files.json" \in full
    [] Ev.op = "write" /\ Ev.shard >= 0 -> "nitro.json" \in closedf /\ File \in created /\ File \notin closedf
    [] Ev.op = "write" -> File \in created /\ File \notin closedf
    [] Ev.op = "close" -> File \in created /\ File \notin closedf
    [] OTHER -> TRUE
TSys == /\ Step("Sys")
        /\ created' = IF Ev.op = "creat" THEN created \cup {File} ELSE created
        /\ closedf' = IF Ev.op = "close" THEN closedf \cup {File} ELSE closedf
        /\ full' = IF Ev.op = "write" THEN full \cup {File} ELSE full
        /\ drift' = Note(drift, First(<< <<SysOK, "order of file-system mutations is not a behaviour of Backup.tla: " \o Ev.op \o " " \o Ev.file>> >>), "DRIFT")
        /\ UNCHANGED <<bad, view, phase>>
TCrashLoad == /\ Step("CrashLoad") /\ bad' = Note(bad, First(Allowed("C12")), "BAD") /\ UNCHANGED <<drift, view, phase, created, closedf, full>>
TFsize == /\ Step("FsizeStore")
          /\ bad' = Note(bad, First(<< <<Ev.ret = "ok" => Exact,
                     "C12:StoreToDisk returned success under a write failure but the backup does not restore the snapshot">> >>), "BAD")
          /\ UNCHANGED <<drift, view, phase, created, closedf, full>>
TDamage == /\ Step("Damage") /\ bad' = Note(bad, First(Allowed("C11")), "BAD") /\ UNCHANGED <<drift, view, phase, created, closedf, full>>
(* Close racing StoreToDisk (growth, Shutdown.tla): success still means an exactly restorable backup (C05);
   termination and the outcome set of Shutdown.tla are compared as binding evidence *)
TShut == /\ Step("Shut") /\ UNCHANGED <<view, phase, created, closedf, full>>
         /\ bad' = Note(bad, First(<< <<Ev.bret = "ok" => Ev.loaded /\ Ev.items = Ev.view /\ Ev.count = Len(Ev.view),
                       "C05:StoreToDisk returned success while the instance was being closed, but the backup does not restore the stored snapshot">> >>), "BAD")
         /\ drift' = Note(drift, First(<< <<Ev.store_returned /\ Ev.close_returned, "Close and StoreToDisk did not both return (Shutdown.tla: Termination)">>,
                       <<Ev.bret \in {"ok", "shutdown"}, "StoreToDisk returned an error other than ErrShutdown (Shutdown.tla: BackupOutcome)">>,
                       <<"live" \in DOMAIN Ev => Ev.live = 0 /\ Ev.allocerrs = 0, "blocks leaked or freed twice when Close raced a backup">> >>), "DRIFT")
TDone == l = N + 1 /\ UNCHANGED tvars
TNext == TGen \/ TSys \/ TCrashLoad \/ TFsize \/ TDamage \/ TShut \/ TDone
TSpec == TInit /\ [][TNext]_tvars
Good == bad = ""
=============================================================================
