------------------------ MODULE Trace_NitroWriters ------------------------
(* Step conformance of the real writers (Put2 / Delete2 on one contended key), barrier destructions, the free
   worker and the collection worker with NitroWriters.tla, under the gate scheduler (driver `vh nw`).
   The driver emits ONE "A" event per model action, in the order in which the real code performed them
   (a gate step from one nitro yield point to the next may comprise several), and one "Obs" event per gate
   step with the real fields of every node, the writers' garbage lists and the allocator's verdicts.

   bad   (property verdicts, facts of the real execution):
         C03  an API result (Put2 / Delete2 / lookup) differs from the one the key's real state dictates,
              or two deletes of one version both succeeded;
         C04  the allocator reports a double / invalid free or a damaged freed block, a node is returned to the
              allocator while a writer inside Delete2 still holds it, a step touches a freed node, a garbage list handed to a snapshot contains a freed node ("Fault"), or a session is
              destructed while a writer that entered before its flush is still inside;
         C07  after Close a block is still live, or a node was not freed exactly once.
   drift (the real state differs from the model's: reported as MODEL-DRIFT, never a verdict). *)
EXTENDS NitroWriters, Json, TLCExt
VARIABLES l, bad, drift
tvars == <<vars, l, bad, drift>>
TLog == ndJsonDeserialize("trace.ndjson")
Ev == TLog[l]
N == Len(TLog)
Note(old, new, tag) == IF old # "" THEN old
                       ELSE IF new # "" /\ PrintT(<<tag, l, new>>) THEN new ELSE new
First(cs) == LET F == {i \in 1..Len(cs) : ~cs[i][1]} IN
             IF F = {} THEN "" ELSE cs[CHOOSE i \in F : \A j \in F : i <= j][2]
IsA(a) == l <= N /\ (IF Ev.e = "A" THEN Ev.a = a ELSE FALSE) /\ l' = l + 1

Start(old) ==
  /\ nalloc' = (IF old THEN 1 ELSE 0)
  /\ nd' = [n \in Ids |-> IF old /\ n = 1 THEN [NoNode EXCEPT !.born = 1, !.linked = TRUE] ELSE NoNode]
  /\ pc' = [w \in Writers |-> "idle"] /\ x' = [w \in Writers |-> 0] /\ res' = [w \in Writers |-> FALSE]
  /\ nops' = [w \in Writers |-> 0] /\ outer' = [w \in Writers |-> 0]
  /\ gchead' = [w \in Writers |-> 0] /\ gctail' = [w \in Writers |-> 0]
  /\ cur' = 1 /\ acc' = [s \in 1..MaxSess |-> 0] /\ closedq' = <<>>
  /\ freeq' = <<>> /\ fw' = 0 /\ gcw' = 0 /\ gcwhead' = 0 /\ snapgc' = 0 /\ phase' = "run" /\ uaf' = FALSE
TInit == /\ l = 1 /\ bad = "" /\ drift = ""
         /\ nalloc = 0 /\ nd = [n \in Ids |-> NoNode]
         /\ pc = [w \in Writers |-> "idle"] /\ x = [w \in Writers |-> 0] /\ res = [w \in Writers |-> FALSE]
         /\ nops = [w \in Writers |-> 0] /\ outer = [w \in Writers |-> 0]
         /\ gchead = [w \in Writers |-> 0] /\ gctail = [w \in Writers |-> 0]
         /\ cur = 1 /\ acc = [s \in 1..MaxSess |-> 0] /\ closedq = <<>>
         /\ freeq = <<>> /\ fw = 0 /\ gcw = 0 /\ gcwhead = 0 /\ snapgc = 0 /\ phase = "run" /\ uaf = FALSE
TReset == /\ l <= N /\ Ev.e = "NwInit" /\ l' = l + 1 /\ Start(Ev.old) /\ UNCHANGED <<bad, drift>>
TSkip == /\ l <= N /\ Ev.e = "NwEnd" /\ l' = l + 1 /\ UNCHANGED <<vars, bad, drift>>

(* facts that hold of the real execution because the model state equals the real state step by step *)
Touched(msg) == IF uaf' /\ ~uaf THEN "C04:" \o msg \o " touched a node that had already been returned to the allocator" ELSE ""
Twice == IF \E n \in 1..nalloc' : nd'[n].wins > 1 THEN "C03:two deletes of one item version both reported success" ELSE ""
Pick(a, b) == IF a # "" THEN a ELSE b
ResMsg(what) == IF res'[Ev.p] # Ev.res
                  THEN "C03:" \o what \o " returned " \o ToString(Ev.res) \o " but the state of the key at that step dictates " \o ToString(res'[Ev.p])
                  ELSE ""

TPut == /\ IsA("Put") /\ Put(Ev.p)
        /\ bad' = Note(bad, ResMsg("Put2 (racing other writers on the key)"), "BAD")
        /\ drift' = Note(drift, IF Ev.res /\ nalloc' # Ev.id THEN "node numbering differs" ELSE "", "DRIFT")
TDelStart == IsA("DelStart") /\ DelStart(Ev.p) /\ UNCHANGED <<bad, drift>>
TG1 == /\ IsA("G1") /\ G1(Ev.p)
       /\ bad' = Note(bad, IF (x'[Ev.p] = 0) # (Ev.x = 0)
                             THEN "C03:the lookup inside Delete2 " \o (IF Ev.x = 0 THEN "missed a live item" ELSE "found an item although none is live")
                             ELSE "", "BAD")
       /\ drift' = Note(drift, IF x'[Ev.p] # Ev.x /\ x'[Ev.p] # 0 /\ Ev.x # 0 THEN "lookup found another node" ELSE "", "DRIFT")
TN1 == IsA("N1") /\ N1(Ev.p) /\ bad' = Note(bad, Touched("DeleteNode"), "BAD") /\ UNCHANGED drift
TN2 == /\ IsA("N2") /\ N2(Ev.p)
       /\ bad' = Note(bad, Pick(Pick(ResMsg("the same-epoch delete"), Twice), Touched("the same-epoch delete")), "BAD") /\ UNCHANGED drift
TN3 == /\ IsA("N3") /\ N3(Ev.p)
       /\ bad' = Note(bad, ResMsg("Delete2"), "BAD") /\ UNCHANGED drift
TN4 == /\ IsA("N4") /\ N4(Ev.p)
       /\ bad' = Note(bad, Pick(Pick(ResMsg("the deadSn compare-and-swap of a cross-epoch delete"), Twice), Touched("the cross-epoch delete")), "BAD") /\ UNCHANGED drift
TN5 == /\ IsA("N5") /\ N5(Ev.p)
       /\ bad' = Note(bad, Touched("the garbage-list append"), "BAD") /\ UNCHANGED drift
CanDestruct == closedq # <<>> /\ \A s \in 1..Head(closedq).sess : acc[s] = 0
TDestruct == /\ IsA("Destruct")
             /\ IF CanDestruct
                  THEN /\ Destruct /\ UNCHANGED bad
                       /\ drift' = Note(drift, IF Head(closedq).ref # Ev.ref THEN "another session was destructed" ELSE "", "DRIFT")
                  ELSE /\ UNCHANGED <<vars, drift>>
                       /\ bad' = Note(bad, "C04:a barrier session was destructed (its nodes handed to the free worker) while a writer that entered before the flush is still inside Delete2", "BAD")
TFwTake == /\ IsA("FwTake") /\ FwTake /\ UNCHANGED bad
           /\ drift' = Note(drift, IF fw' # Ev.head THEN "the free worker took another list" ELSE "", "DRIFT")
TFwFree == /\ IsA("FwFree")
           /\ IF fw = Ev.n THEN FwFree /\ UNCHANGED drift
                           ELSE UNCHANGED vars /\ drift' = Note(drift, "the free worker walks another node", "DRIFT")
           /\ bad' = Note(bad, IF fw = Ev.n /\ nd[fw].freed > 0 THEN "C04:the free worker frees a node a second time" ELSE "", "BAD")
TSnapshot == /\ IsA("Snapshot") /\ Snapshot /\ UNCHANGED bad
             /\ drift' = Note(drift, IF snapgc' # Ev.head THEN "the snapshot's garbage list starts elsewhere" ELSE "", "DRIFT")
TGcStep == IsA("GcStep") /\ GcStep /\ bad' = Note(bad, Touched("the collection worker"), "BAD") /\ UNCHANGED drift
TCloseDB == IsA("CloseDB") /\ CloseDB /\ UNCHANGED <<bad, drift>>

Row(n) == Ev.nodes[n]
ObsChecks ==
  << <<Len(Ev.nodes) = nalloc, "number of nodes differs">>,
     <<\A n \in 1..Len(Ev.nodes) : n <= nalloc => (Row(n)[6] = 1) = (nd[n].freed > 0), "a node's freed status differs">>,
     <<\A n \in 1..Len(Ev.nodes) : (n <= nalloc /\ Row(n)[6] = 0) =>
          /\ Row(n)[1] = nd[n].born /\ Row(n)[2] = nd[n].dead
          /\ (Row(n)[3] = 1) = nd[n].linked /\ (Row(n)[4] = 1) = nd[n].marked, "a node's born/dead/linked/marked differs">>,
     <<\A n \in 1..Len(Ev.nodes) : (n <= nalloc /\ Row(n)[6] = 0) => Row(n)[5] = nd[n].link, "a node's garbage link differs">>,
     <<\A w \in Writers : w <= Len(Ev.gchead) => Ev.gchead[w] = gchead[w] /\ Ev.gctail[w] = gctail[w], "a writer's garbage list differs">> >>
Facts ==
  IF Len(Ev.errs) > 0 THEN "C04:the allocator reports: " \o Ev.errs[1]
  ELSE IF Ev.damaged > 0 THEN "C04:a freed block was written to"
  ELSE IF \E i \in 1..Len(Ev.held) : Ev.held[i][3] = 1
         THEN "C04:a node was returned to the allocator while a writer, inside Delete2, still holds it"
  ELSE ""
TObs == /\ l <= N /\ Ev.e = "Obs" /\ l' = l + 1 /\ UNCHANGED vars
        /\ bad' = Note(bad, Facts, "BAD")
        /\ drift' = Note(drift, First(ObsChecks), "DRIFT")
TClosed == /\ l <= N /\ Ev.e = "Closed" /\ l' = l + 1 /\ UNCHANGED <<vars, drift>>
           /\ bad' = Note(bad,
                IF Len(Ev.errs) > 0 THEN "C04:the allocator reports: " \o Ev.errs[1]
                ELSE IF Ev.live # 0 THEN "C07:after Close " \o ToString(Ev.live) \o " blocks were never returned to the allocator"
                ELSE IF \E i \in 1..Len(Ev.freed) : Ev.freed[i] # 1 THEN "C07:a node was not released by Close"
                ELSE IF Ev.damaged > 0 THEN "C04:a freed block was written to"
                ELSE "", "BAD")
TFault == /\ l <= N /\ Ev.e = "Fault" /\ l' = l + 1 /\ UNCHANGED <<vars, drift>>
          /\ bad' = Note(bad, "C04:" \o Ev.msg, "BAD")
TDelRet == l <= N /\ Ev.e = "DelRet" /\ l' = l + 1 /\ UNCHANGED <<vars, bad, drift>>   \* judged by NitroWritersAPI.tla
TDone == l = N + 1 /\ UNCHANGED tvars
TNext == \/ TReset \/ TSkip \/ TPut \/ TDelStart \/ TG1 \/ TN1 \/ TN2 \/ TN3 \/ TN4 \/ TN5
         \/ TDestruct \/ TFwTake \/ TFwFree \/ TSnapshot \/ TGcStep \/ TCloseDB \/ TObs \/ TClosed \/ TFault \/ TDelRet \/ TDone
TSpec == TInit /\ [][TNext]_tvars
Good == bad = ""
=============================================================================
