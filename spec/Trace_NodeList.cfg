SPECIFICATION TSpec
CONSTANTS
  LKeys = {1}
  Copies = {1}
  MaxOps = 0
INVARIANT Good
CHECK_DEADLOCK TRUE
