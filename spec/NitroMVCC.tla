----------------------------- MODULE NitroMVCC -----------------------------
(* The nitro MVCC store at API grain: one action per public call (nitro.go, iterator.go) and one
   per background-worker step (collectionWorker taking one released garbage list).

   The model is implementation-shaped:
     - versions are ordered by (key, bornSn) exactly as the insert comparator orders them;
       a key-only seek lands on the OLDEST physical version of the first key >= k;
     - a same-epoch delete is physical, a cross-epoch delete only stamps deadSn and appends the
       node to the writer's garbage list; NewSnapshot stitches the lists into the snapshot;
     - Snapshot.Close retires a snapshot at refcount 0 and collectDead releases garbage lists
       strictly in snapshot order; released lists are consumed FIFO by one collection worker per
       writer (so at most |Writers| lists are being unlinked at a time, in any order);
     - the iterator keeps the code's refresh counter, saturated (iterator.go lets it grow).

   Listed properties are separate invariants over ghost variables (live, view):
     C01 SnapshotImmutable   C02 Results/LiveMatches   C06 Retained/Precise
     C08 (sequential part) OpenIffNotRetired           C09 IterExact   C10 VisitPartition
   FIXD1 / FIXD2 select the behaviour of Iterator.Refresh and of the visitor's shard-end test:
   TRUE = repaired behaviour (skip invisible versions after the re-seek; key-only end test),
   FALSE = behaviour of the pinned commit (kept so that the defects stay demonstrable). *)
EXTENDS Integers, Sequences, FiniteSets, TLC

CONSTANTS Keys, Vals, Writers, MaxSn, MaxRef, MaxCnt, Rates, Iters, MaxPivots, FIXD1, FIXD2

VARIABLES
  vers,        \* set of [k, v, born, dead]: versions physically linked in the store
  currSn,      \* current epoch
  itemsCount,  \* Nitro.itemsCount (merged only by NewSnapshot)
  wcount,      \* per-writer item delta
  wgc,         \* per-writer garbage list (set of version positions)
  snaps,       \* sn -> [ref, count, gc, st]   st in {"none","open","retired","collected"}
  lastGCSn,
  inflight,    \* sequence of sn whose garbage list was released to the workers and not yet unlinked
  it,          \* iterator id -> iterator record
  live,        \* ghost: reference set of [k, v]
  view         \* ghost: sn -> sequence of [k, v] visible at creation (<<>> once retired)

vars == <<vers, currSn, itemsCount, wcount, wgc, snaps, lastGCSn, inflight, it, live, view>>

BIG == 1000000
END == [k |-> BIG, born |-> 0]
Pos(x) == [k |-> x.k, born |-> x.born]
KV(x) == [k |-> x.k, v |-> x.v]
Lt(a, b) == a.k < b.k \/ (a.k = b.k /\ a.born < b.born)
Le(a, b) == a = b \/ Lt(a, b)
Visible(x, sn) == x.born <= sn /\ (x.dead = 0 \/ x.dead > sn)       \* iterator.go:32

MinPos(S) == IF S = {} THEN END ELSE CHOOSE p \in S : \A q \in S : Le(p, q)
FirstGE(V, p) == MinPos({Pos(x) : x \in {y \in V : Le(p, Pos(y))}})
FirstGT(V, p) == MinPos({Pos(x) : x \in {y \in V : Lt(p, Pos(y))}})
Has(V, p) == \E x \in V : Pos(x) = p
At(V, p) == CHOOSE x \in V : Pos(x) = p

RECURSIVE Skip(_, _, _)       \* skipUnwanted: first visible version at or after p
Skip(V, p, sn) == IF p = END THEN END
                  ELSE IF Has(V, p) /\ Visible(At(V, p), sn) THEN p
                  ELSE Skip(V, FirstGT(V, p), sn)
RECURSIVE SkipCnt(_, _, _)    \* how many versions skipUnwanted steps over (bumps Iterator.count)
SkipCnt(V, p, sn) == IF p = END THEN 0
                     ELSE IF Has(V, p) /\ Visible(At(V, p), sn) THEN 0
                     ELSE (IF Has(V, p) THEN 1 ELSE 0) + SkipCnt(V, FirstGT(V, p), sn)

RECURSIVE SeqOf(_)
SeqOf(S) == IF S = {} THEN <<>>
            ELSE LET m == CHOOSE x \in S : \A y \in S : Le(Pos(x), Pos(y))
                 IN <<KV(m)>> \o SeqOf(S \ {m})
VisSet(V, sn) == {x \in V : Visible(x, sn)}
VisSeq(V, sn) == SeqOf(VisSet(V, sn))

(* ---------------- writer paths ---------------- *)
VersOf(k) == {x \in vers : x.k = k}
Newest(k) == CHOOSE x \in VersOf(k) : \A y \in VersOf(k) : y.born <= x.born
None == [k |-> 0, v |-> 0, born |-> 0, dead |-> 0]

(* Writer.GetNode: seek (k, currSn) with the insert comparator; exact hit, or the predecessor when it
   has an equal key and both deadSn are 0 (existCmp) -- nitro.go:273-285, skiplist/iterator.go:53-66 *)
GetNodeRes(k) == IF VersOf(k) = {} THEN None
                 ELSE LET n == Newest(k) IN
                      IF n.born = currSn THEN n ELSE IF n.dead = 0 THEN n ELSE None
(* Put2: Insert2 fails on an exact (key, bornSn) hit or when existCmp accepts the predecessor *)
PutOk(k) == IF VersOf(k) = {} THEN TRUE
            ELSE LET n == Newest(k) IN IF n.born = currSn THEN FALSE ELSE n.dead # 0

Put(w, k, v) ==
  /\ IF PutOk(k)
       THEN /\ vers' = vers \cup {[k |-> k, v |-> v, born |-> currSn, dead |-> 0]}
            /\ wcount' = [wcount EXCEPT ![w] = @ + 1]
            /\ live' = live \cup {[k |-> k, v |-> v]}
       ELSE UNCHANGED <<vers, wcount, live>>
  /\ UNCHANGED <<currSn, itemsCount, wgc, snaps, lastGCSn, inflight, it, view>>

(* Writer.DeleteNode on node x (a linked version with dead = 0) -- nitro.go:240-269 *)
DeleteVer(w, x) ==
  /\ IF x.born = currSn
       THEN /\ vers' = vers \ {x}                       \* physical removal + session flush
            /\ wgc' = wgc
       ELSE /\ vers' = (vers \ {x}) \cup {[x EXCEPT !.dead = currSn]}
            /\ wgc' = [wgc EXCEPT ![w] = @ \cup {Pos(x)}]
  /\ wcount' = [wcount EXCEPT ![w] = @ - 1]
  /\ live' = {e \in live : e.k # x.k}

DeleteOk(k) == GetNodeRes(k) # None /\ GetNodeRes(k).dead = 0
Delete(w, k) ==
  /\ (IF DeleteOk(k) THEN DeleteVer(w, GetNodeRes(k)) ELSE UNCHANGED <<vers, wgc, wcount, live>>)
  /\ UNCHANGED <<currSn, itemsCount, snaps, lastGCSn, inflight, it, view>>

(* ---------------- snapshots ---------------- *)
RECURSIVE SumOver(_, _)
SumOver(f, D) == IF D = {} THEN 0 ELSE LET d == CHOOSE d \in D : TRUE IN f[d] + SumOver(f, D \ {d})
NoSnap == [ref |-> 0, count |-> 0, gc |-> {}, st |-> "none"]

NewSnapshot ==
  /\ currSn <= MaxSn
  /\ LET cnt == itemsCount + SumOver(wcount, Writers) IN
       /\ itemsCount' = cnt
       /\ snaps' = [snaps EXCEPT ![currSn] = [ref |-> 1, count |-> cnt,
                                              gc |-> UNION {wgc[w] : w \in Writers}, st |-> "open"]]
  /\ view' = [view EXCEPT ![currSn] = VisSeq(vers, currSn)]
  /\ wcount' = [w \in Writers |-> 0] /\ wgc' = [w \in Writers |-> {}]
  /\ currSn' = currSn + 1
  /\ UNCHANGED <<vers, lastGCSn, inflight, it, live>>

(* Snapshot.Open -- nitro.go:566-572 (sequential semantics; the two-step race is in SnapRef.tla) *)
OpenOk(s) == snaps[s].ref > 0
Open(s) ==
  /\ snaps[s].st # "none" /\ snaps[s].ref < MaxRef       \* MaxRef only bounds the model
  /\ IF OpenOk(s) THEN snaps' = [snaps EXCEPT ![s].ref = @ + 1] ELSE UNCHANGED snaps
  /\ UNCHANGED <<vers, currSn, itemsCount, wcount, wgc, lastGCSn, inflight, it, live, view>>

(* collectDead: release garbage lists in snapshot order starting at lastGCSn+1 -- nitro.go:694-714 *)
RECURSIVE Collect(_, _)
Collect(sn, last) == IF last + 1 <= MaxSn /\ sn[last + 1].st = "retired"
                     THEN Collect([sn EXCEPT ![last + 1].st = "collected"], last + 1)
                     ELSE [sn |-> sn, last |-> last]
RECURSIVE Range(_, _)
Range(a, b) == IF a > b THEN <<>> ELSE <<a>> \o Range(a + 1, b)

(* Snapshot.Close -- nitro.go:577-588: the state after dropping one reference of s *)
Drop(s) ==
  LET r == snaps[s].ref - 1 IN
  IF r > 0 THEN [snaps |-> [snaps EXCEPT ![s].ref = r], last |-> lastGCSn, infl |-> inflight, view |-> view]
  ELSE LET sn1 == [snaps EXCEPT ![s].ref = 0, ![s].st = "retired"]
           c == Collect(sn1, lastGCSn) IN
       [snaps |-> c.sn, last |-> c.last, infl |-> inflight \o Range(lastGCSn + 1, c.last),
        view |-> [view EXCEPT ![s] = <<>>]]

(* a collection worker unlinks every node of a released list -- nitro.go:657-671 *)
Unlinked(V, sn, U) == {x \in V : \A s \in U : Pos(x) \notin sn[s].gc}
SeqMinus(q, U) == SelectSeq(q, LAMBDA e : e \notin U)
NWorkers == Cardinality(Writers)
CanUnlink(q, s) == \E i \in 1..Len(q) : i <= NWorkers /\ q[i] = s

ItersOn(s) == Cardinality({i \in Iters : it[i].open /\ it[i].snap = s})
(* CloseSnapU(s, U): Close of a handle, composed with the workers unlinking the lists in U
   before the caller's next step (U = {} is the plain call) *)
CloseSnapU(s, U) ==
  /\ snaps[s].st = "open" /\ snaps[s].ref > ItersOn(s)     \* the caller owns a handle
  /\ LET D == Drop(s) IN
       /\ snaps' = D.snaps /\ lastGCSn' = D.last /\ view' = D.view
       /\ vers' = Unlinked(vers, D.snaps, U)
       /\ inflight' = SeqMinus(D.infl, U)
  /\ UNCHANGED <<currSn, itemsCount, wcount, wgc, it, live>>
CloseSnap(s) == CloseSnapU(s, {})

(* one collection worker takes one released list (FIFO hand-out, one worker per writer) *)
GCUnlink(s) ==
  /\ CanUnlink(inflight, s)
  /\ vers' = Unlinked(vers, snaps, {s})
  /\ inflight' = SeqMinus(inflight, {s})
  /\ UNCHANGED <<currSn, itemsCount, wcount, wgc, snaps, lastGCSn, it, live, view>>

(* ---------------- iterators (iterator.go) ---------------- *)
NoIt == [open |-> FALSE, snap |-> 0, pos |-> END, valid |-> FALSE, count |-> 0, rate |-> 0, abs |-> 0]
Sat(c, r) == IF r = 0 THEN 0 ELSE IF c > r + 1 THEN r + 1 ELSE c

IterNewOk(s) == snaps[s].ref > 0
IterNew(i, s, r) ==
  /\ ~it[i].open /\ snaps[s].st # "none"
  /\ IF IterNewOk(s)
       THEN /\ snaps' = [snaps EXCEPT ![s].ref = @ + 1]
            /\ it' = [it EXCEPT ![i] = [NoIt EXCEPT !.open = TRUE, !.snap = s, !.rate = r]]
       ELSE UNCHANGED <<snaps, it>>
  /\ UNCHANGED <<vers, currSn, itemsCount, wcount, wgc, lastGCSn, inflight, live, view>>

IterSetRate(i, r) ==
  /\ it[i].open
  /\ it' = [it EXCEPT ![i].rate = r, ![i].count = Sat(@, r)]
  /\ UNCHANGED <<vers, currSn, itemsCount, wcount, wgc, snaps, lastGCSn, inflight, live, view>>

AbsIdxGE(s, k) == LET q == view[s] S == {j \in 1..Len(q) : q[j].k >= k} IN
                  IF S = {} THEN Len(q) + 1 ELSE CHOOSE j \in S : \A m \in S : j <= m

SeekTo(i, p0, absidx) ==
  LET s == it[i].snap  p == Skip(vers, p0, s) IN
  it' = [it EXCEPT ![i].pos = p, ![i].valid = (p # END),
                   ![i].count = Sat(@ + SkipCnt(vers, p0, s), it[i].rate), ![i].abs = absidx]

IterSeek(i, k) ==
  /\ it[i].open
  /\ SeekTo(i, FirstGE(vers, [k |-> k, born |-> 0]), AbsIdxGE(it[i].snap, k))
  /\ UNCHANGED <<vers, currSn, itemsCount, wcount, wgc, snaps, lastGCSn, inflight, live, view>>
IterSeekFirst(i) ==
  /\ it[i].open
  /\ SeekTo(i, FirstGE(vers, [k |-> -1, born |-> 0]), 1)
  /\ UNCHANGED <<vers, currSn, itemsCount, wcount, wgc, snaps, lastGCSn, inflight, live, view>>

(* Refresh: copy the current item, reopen the cursor, key-only re-seek -- iterator.go:82-89 *)
Refreshed(p, s) == LET q == FirstGE(vers, [k |-> p.k, born |-> 0]) IN IF FIXD1 THEN Skip(vers, q, s) ELSE q
RefreshCnt(p, s) == IF FIXD1 THEN SkipCnt(vers, FirstGE(vers, [k |-> p.k, born |-> 0]), s) ELSE 0

IterNext(i) ==
  /\ it[i].open /\ it[i].valid
  /\ LET s == it[i].snap  r == it[i].rate
         p0 == FirstGT(vers, it[i].pos)  p == Skip(vers, p0, s)
         c == it[i].count + 1 + SkipCnt(vers, p0, s) IN
       it' = (IF r > 0 /\ c > r
                THEN (IF p # END
                        THEN [it EXCEPT ![i].pos = Refreshed(p, s), ![i].valid = (Refreshed(p, s) # END),
                                        ![i].count = 0, ![i].abs = @ + 1]
                        ELSE [it EXCEPT ![i].pos = END, ![i].valid = FALSE, ![i].count = 0, ![i].abs = @ + 1])
                ELSE [it EXCEPT ![i].pos = p, ![i].valid = (p # END), ![i].count = Sat(c, r), ![i].abs = @ + 1])
  /\ UNCHANGED <<vers, currSn, itemsCount, wcount, wgc, snaps, lastGCSn, inflight, live, view>>

IterRefresh(i) ==
  /\ it[i].open /\ it[i].valid
  /\ LET s == it[i].snap IN
       it' = [it EXCEPT ![i].pos = Refreshed(it[i].pos, s), ![i].valid = (Refreshed(it[i].pos, s) # END),
                        ![i].count = Sat(@ + RefreshCnt(it[i].pos, s), it[i].rate)]
  /\ UNCHANGED <<vers, currSn, itemsCount, wcount, wgc, snaps, lastGCSn, inflight, live, view>>

IterCloseU(i, U) ==
  /\ it[i].open
  /\ it' = [it EXCEPT ![i] = NoIt]
  /\ LET D == Drop(it[i].snap) IN
       /\ snaps' = D.snaps /\ lastGCSn' = D.last /\ view' = D.view
       /\ vers' = Unlinked(vers, D.snaps, U)
       /\ inflight' = SeqMinus(D.infl, U)
  /\ UNCHANGED <<currSn, itemsCount, wcount, wgc, live>>
IterClose(i) == IterCloseU(i, {})

(* ---------------- specification ---------------- *)
Init ==
  /\ vers = {} /\ currSn = 1 /\ itemsCount = 0
  /\ wcount = [w \in Writers |-> 0] /\ wgc = [w \in Writers |-> {}]
  /\ snaps = [s \in 1..MaxSn |-> NoSnap] /\ lastGCSn = 0 /\ inflight = <<>>
  /\ it = [i \in Iters |-> NoIt]
  /\ live = {} /\ view = [s \in 1..MaxSn |-> <<>>]

PutB(w, k, v) == wcount[w] < MaxCnt /\ Put(w, k, v)        \* MaxCnt only bounds the model
DeleteB(w, k) == wcount[w] > -MaxCnt /\ Delete(w, k)
Next ==
  \/ \E w \in Writers, k \in Keys, v \in Vals : PutB(w, k, v)
  \/ \E w \in Writers, k \in Keys : DeleteB(w, k)
  \/ NewSnapshot
  \/ \E s \in 1..MaxSn : Open(s) \/ CloseSnap(s) \/ GCUnlink(s)
  \/ \E i \in Iters, s \in 1..MaxSn, r \in Rates : IterNew(i, s, r)
  \/ \E i \in Iters, k \in Keys : IterSeek(i, k)
  \/ \E i \in Iters : IterSeekFirst(i) \/ IterNext(i) \/ IterRefresh(i) \/ IterClose(i)

Spec == Init /\ [][Next]_vars

(* ---------------- properties ---------------- *)
OpenSnaps == {s \in 1..MaxSn : snaps[s].st = "open"}

(* C01: every open snapshot presents exactly the items live at its creation, and Count() agrees *)
C01_SnapshotImmutable ==
  \A s \in OpenSnaps : VisSeq(vers, s) = view[s] /\ snaps[s].count = Len(view[s])

(* C02: the store is a set keyed by the comparator; results of Put/Delete/GetNode follow it *)
LiveKeys == {e.k : e \in live}
C02_LiveMatches == {KV(x) : x \in {y \in vers : y.dead = 0}} = live
                   /\ \A x, y \in vers : x.dead = 0 /\ y.dead = 0 /\ x.k = y.k => x = y
C02_Results == \A k \in Keys : /\ PutOk(k) = (k \notin LiveKeys)
                               /\ DeleteOk(k) = (k \in LiveKeys)
                               /\ (GetNodeRes(k) # None) = (k \in LiveKeys)
                               /\ (k \in LiveKeys => KV(GetNodeRes(k)) \in live)
C02_Counts == itemsCount + SumOver(wcount, Writers) = Cardinality(live)

(* C06: retained while visible; precise once the released lists have been unlinked *)
C06_Retained == \A s \in OpenSnaps : \A j \in 1..Len(view[s]) : \E x \in vers : KV(x) = view[s][j] /\ Visible(x, s)
AllRetiredUpTo(n) == \A s \in 1..n : snaps[s].st \in {"retired", "collected"}
C06_CollectorProgress == lastGCSn = (CHOOSE n \in 0..MaxSn : AllRetiredUpTo(n) /\ (n = MaxSn \/ ~AllRetiredUpTo(n + 1)))
C06_Precise == inflight = <<>> => \A x \in vers : x.dead = 0 \/ x.dead > lastGCSn
C06_NoEarlyUnlink == \A s \in 1..MaxSn : \A p \in snaps[s].gc :
                        (snaps[s].st \in {"open", "retired"}) => Has(vers, p)

(* C08, sequential part: a handle can be obtained iff the snapshot is not yet fully released *)
C08_OpenIffNotRetired == \A s \in 1..MaxSn : snaps[s].st # "none" => (OpenOk(s) = (snaps[s].st = "open"))
C08_RefNonNeg == \A s \in 1..MaxSn : snaps[s].ref >= 0 /\ (snaps[s].st = "open") = (snaps[s].ref > 0)

(* C09: the iterator is always exactly the abstract iterator over the snapshot's view *)
C09_IterExact ==
  \A i \in Iters : it[i].open /\ it[i].abs # 0 =>
     LET q == view[it[i].snap] IN
     /\ it[i].valid = (it[i].abs <= Len(q))
     /\ it[i].valid => Has(vers, it[i].pos) /\ KV(At(vers, it[i].pos)) = q[it[i].abs]

(* C10: for every choice of pivots the visitor's shards partition the view in order *)
StopAt(p, e) == IF FIXD2 THEN p.k >= e.k ELSE Le(e, p)
RECURSIVE Walk(_, _, _, _)
Walk(p, e, s, fuel) == IF p = END \/ fuel = 0 THEN <<>>
                       ELSE IF e # END /\ StopAt(p, e) THEN <<>>
                       ELSE <<KV(At(vers, p))>> \o Walk(Skip(vers, FirstGT(vers, p), s), e, s, fuel - 1)
PivotSeqs == {q \in UNION {[1..n -> {Pos(x) : x \in vers}] : n \in 0..MaxPivots} :
                \A j \in 1..(Len(q) - 1) : Lt(q[j], q[j + 1])}
(* pivots that survive the filter of nitro.go:772-783: seek(pivot key) is valid, strictly increasing *)
ShardStart(q, j, s) == IF j = 0 THEN Skip(vers, FirstGE(vers, [k |-> -1, born |-> 0]), s)
                       ELSE Skip(vers, FirstGE(vers, [k |-> q[j].k, born |-> 0]), s)
RECURSIVE Cat(_, _, _)
Cat(q, j, s) == IF j > Len(q) THEN <<>>
                ELSE Walk(ShardStart(q, j, s), IF j = Len(q) THEN END ELSE q[j + 1], s, 64) \o Cat(q, j + 1, s)
C10_VisitPartition == \A s \in OpenSnaps : \A q \in PivotSeqs : Cat(q, 0, s) = view[s]

TypeOK == /\ currSn \in 1..(MaxSn + 1) /\ lastGCSn \in 0..MaxSn
          /\ \A x \in vers : x.born <= currSn /\ x.dead <= currSn
=============================================================================
