----------------------------- MODULE NodeList -----------------------------
(* nodelist.go: an intrusive singly linked list of skiplist nodes threaded through Node.Link.
   Nodes are <<key, copy>> (several nodes may carry equal keys).  C20, second half. *)
EXTENDS Integers, Sequences, FiniteSets, TLC
CONSTANTS LKeys, Copies, MaxOps
VARIABLES lst, nops
lvars == <<lst, nops>>

LInit == lst = <<>> /\ nops = 0
InList(n) == \E i \in 1..Len(lst) : lst[i] = n
FirstPos(k) == LET S == {i \in 1..Len(lst) : lst[i][1] = k} IN
               IF S = {} THEN 0 ELSE CHOOSE i \in S : \A j \in S : i <= j
RemoveRes(k) == IF FirstPos(k) = 0 THEN <<0, 0>> ELSE lst[FirstPos(k)]
KeysOf(s) == [i \in 1..Len(s) |-> s[i][1]]

Add(n) == lst' = <<n>> \o lst
Remove(k) == LET p == FirstPos(k) IN
             lst' = IF p = 0 THEN lst ELSE SubSeq(lst, 1, p - 1) \o SubSeq(lst, p + 1, Len(lst))

Tick == nops < MaxOps /\ nops' = nops + 1
DoAdd(k, c) == Tick /\ ~InList(<<k, c>>) /\ Add(<<k, c>>)
DoLRemove(k) == Tick /\ Remove(k)
LNext == (\E k \in LKeys, c \in Copies : DoAdd(k, c)) \/ (\E k \in LKeys : DoLRemove(k))
LSpec == LInit /\ [][LNext]_lvars

NoDupNodes == \A i, j \in 1..Len(lst) : i # j => lst[i] # lst[j]
=============================================================================
