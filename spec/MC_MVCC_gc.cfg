SPECIFICATION Spec
CONSTANTS
  Keys = {1, 2}
  Vals = {1}
  Writers = {w1}
  MaxCnt = 2
  MaxRef = 2
  MaxSn = 3
  Rates = {}
  Iters = {}
  MaxPivots = 1
  FIXD1 = TRUE
  FIXD2 = TRUE
INVARIANT TypeOK
INVARIANT C01_SnapshotImmutable
INVARIANT C02_LiveMatches
INVARIANT C02_Results
INVARIANT C02_Counts
INVARIANT C06_Retained
INVARIANT C06_CollectorProgress
INVARIANT C06_Precise
INVARIANT C06_NoEarlyUnlink
INVARIANT C08_OpenIffNotRetired
INVARIANT C08_RefNonNeg
INVARIANT C10_VisitPartition
CHECK_DEADLOCK FALSE
