---- MODULE MC_Backup ----
EXTENDS Backup
MCItems21 == <<2, 1>>
MCItems11 == <<1, 1>>
MCItems210 == <<2, 1, 0>>
====
