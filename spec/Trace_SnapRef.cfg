SPECIFICATION TSpec
CONSTANTS
  Procs = {"p1", "p2", "p3", "p4"}
  NSnap = 3
  MaxOpen = 1000000
  FIXD4 = TRUE
INVARIANT NoDrift
CHECK_DEADLOCK TRUE
