---------------------------- MODULE RefCountInd ----------------------------
(* Unbounded safety of the snapshot reference count (C08), as an inductive invariant discharged by
   Apalache: Snapshot.Open is a compare-and-swap loop that never moves the count away from zero, Close
   decrements and retires the snapshot at zero (nitro.go Snapshot.Open / Close, the repaired code = SnapRef.tla
   with FIXD4 = TRUE, one snapshot, collector abstracted).  Counts, the number of Open/Close calls and the
   length of behaviours are unbounded; the set of processes is fixed (3).

     apalache-mc check --init=Init    --inv=IndInv --length=0 RefCountInd.tla     (initiation)
     apalache-mc check --init=IndInv  --inv=IndInv --length=1 RefCountInd.tla     (consecution)
     apalache-mc check --init=IndInv  --inv=Safety --length=0 RefCountInd.tla     (IndInv => Safety)        *)
EXTENDS Integers, Apalache

Procs == {"p1", "p2", "p3"}

VARIABLES
  \* @type: Int;
  ref,
  \* @type: Str -> Int;
  owns,
  \* @type: Str -> Str;
  pc,
  \* @type: Str -> Int;
  loaded,
  \* @type: Bool;
  retired,
  \* @type: Bool;
  openedRetired

vars == <<ref, owns, pc, loaded, retired, openedRetired>>

Init ==
  /\ ref = 1
  /\ owns = [p \in Procs |-> IF p = "p1" THEN 1 ELSE 0]
  /\ pc = [p \in Procs |-> "idle"]
  /\ loaded = [p \in Procs |-> 0]
  /\ retired = FALSE /\ openedRetired = FALSE

(* Open: load; fail at zero; otherwise CAS(loaded -> loaded+1), reload on failure *)
OpenLoad(p) ==
  /\ pc[p] = "idle"
  /\ loaded' = [loaded EXCEPT ![p] = ref]
  /\ pc' = [pc EXCEPT ![p] = IF ref = 0 THEN "idle" ELSE "O2"]
  /\ UNCHANGED <<ref, owns, retired, openedRetired>>
OpenCas(p) ==
  /\ pc[p] = "O2"
  /\ IF ref # loaded[p]
       THEN /\ loaded' = [loaded EXCEPT ![p] = ref]
            /\ pc' = [pc EXCEPT ![p] = IF ref = 0 THEN "idle" ELSE "O2"]
            /\ UNCHANGED <<ref, owns, openedRetired>>
       ELSE /\ ref' = ref + 1
            /\ owns' = [owns EXCEPT ![p] = @ + 1]
            /\ openedRetired' = (openedRetired \/ retired)
            /\ pc' = [pc EXCEPT ![p] = "idle"]
            /\ UNCHANGED loaded
  /\ UNCHANGED retired
(* Close: atomic decrement; the caller that reaches zero retires the snapshot *)
Close(p) ==
  /\ pc[p] = "idle" /\ owns[p] > 0
  /\ owns' = [owns EXCEPT ![p] = @ - 1]
  /\ ref' = ref - 1
  /\ retired' = (retired \/ ref - 1 = 0)
  /\ UNCHANGED <<pc, loaded, openedRetired>>

Next == \E p \in Procs : OpenLoad(p) \/ OpenCas(p) \/ Close(p)

Sum == ApaFoldSet(LAMBDA a, p: a + owns[p], 0, Procs)

TypeOK ==
  /\ ref \in Int
  /\ owns \in [Procs -> Int]
  /\ pc \in [Procs -> {"idle", "O2"}]
  /\ loaded \in [Procs -> Int]
  /\ retired \in BOOLEAN /\ openedRetired \in BOOLEAN

IndInv ==
  /\ TypeOK
  /\ ref >= 0
  /\ \A p \in Procs : owns[p] >= 0
  /\ ref = Sum                                  \* the count is exactly the number of handles owned
  /\ retired = (ref = 0)                        \* once at zero, retired; never leaves zero (with the next conjunct)
  /\ \A p \in Procs : pc[p] = "O2" => loaded[p] > 0
  /\ ~openedRetired

(* C08: no handle of a retired snapshot is owned; no Open ever succeeded on a retired snapshot;
   the count never becomes negative *)
Safety ==
  /\ retired => (ref = 0 /\ \A p \in Procs : owns[p] = 0)
  /\ ~openedRetired
  /\ ref >= 0
=============================================================================
