------------------------------ MODULE SnapRef ------------------------------
(* Snapshot handles and the collector at the grain of their atomic steps (nitro.go:563-600, 692-735).
   Labels are the verif yield points at which the real goroutine is parked:

     idle  between two calls
     O2    Snapshot.Open: reference count loaded (non-zero), before the increment
     C2    Snapshot.Close: count decremented, before the zero test
     C3    Close, last reference: snapshot moved from the live list to the retired list, before GC()
     G1    GC(): try-lock taken, before collectDead
     G2    collectDead: lastGCSn advanced to the first retired snapshot, before its list is sent
     G3    GC(): collectDead returned and the try-lock released, before GC() returns

   FIXD4 = FALSE is the pinned commit: Open tests the count and increments it in two steps, so an Open
   racing with the final Close returns TRUE for a retired snapshot, which is later retired a second
   time with sn <= lastGCSn and blocks collectDead for ever.  TRUE = compare-and-swap loop.

   C08: NoOwnerOfRetired, OpenFailsOnlyAtZero (by construction of O1), RetiredOnce, SentInOrder,
        CollectorNotStuck. *)
EXTENDS Integers, Sequences, FiniteSets, TLC

CONSTANTS Procs, NSnap, MaxOpen, FIXD4

Snaps == 1..NSnap

VARIABLES ref,        \* snapshot -> refCount
          openSet,    \* the `snapshots` list
          gcSet,      \* the `gcsnapshots` list
          lastGCSn, gcRunning,
          sent,       \* sequence of snapshot numbers handed to the workers
          pc, snapOf, loaded, newRef, cursor,   \* per process
          nopen,      \* per process: Open calls made (bounds the model)
          owns,       \* ghost: process -> snapshot -> handles owned
          retires,    \* ghost: snapshot -> number of times it entered the retired list
          openedRetired,\* ghost: an Open returned TRUE for a snapshot already retired
          forced      \* ghost: "dirty" a Close began since the last forced pass; "running" a GC() called at quiescence is in progress; "done" it completed undisturbed

vars == <<ref, openSet, gcSet, lastGCSn, gcRunning, sent, pc, snapOf, loaded, newRef, cursor, nopen,
          owns, retires, openedRetired, forced>>

Init ==
  /\ ref = [s \in Snaps |-> 1] /\ openSet = Snaps /\ gcSet = {} /\ lastGCSn = 0 /\ gcRunning = 0 /\ sent = <<>>
  /\ pc = [p \in Procs |-> "idle"] /\ snapOf = [p \in Procs |-> 0] /\ loaded = [p \in Procs |-> 0]
  /\ newRef = [p \in Procs |-> 0] /\ cursor = [p \in Procs |-> 0] /\ nopen = [p \in Procs |-> 0]
  /\ owns \in {o \in [Procs -> [Snaps -> {0, 1}]] : \A s \in Snaps : Cardinality({p \in Procs : o[p][s] = 1}) = 1}
  /\ retires = [s \in Snaps |-> 0] /\ openedRetired = FALSE /\ forced = "dirty"

Go(p, l) == pc' = [pc EXCEPT ![p] = l]
UNCH_GC == UNCHANGED <<lastGCSn, gcRunning, sent>>

(* ---- Snapshot.Open ---- *)
OpenCall(p, s) ==            \* idle -> load the count
  /\ pc[p] = "idle" /\ nopen[p] < MaxOpen /\ nopen' = [nopen EXCEPT ![p] = @ + 1]
  /\ snapOf' = [snapOf EXCEPT ![p] = s] /\ loaded' = [loaded EXCEPT ![p] = ref[s]]
  /\ IF ref[s] = 0 THEN Go(p, "idle") ELSE Go(p, "O2")            \* returns FALSE at zero
  /\ UNCHANGED <<ref, openSet, gcSet, newRef, cursor, owns, retires, openedRetired, forced>> /\ UNCH_GC
O2(p) ==
  /\ pc[p] = "O2"
  /\ LET s == snapOf[p] IN
     IF FIXD4 /\ ref[s] # loaded[p]
       THEN \* compare-and-swap failed: reload
            /\ loaded' = [loaded EXCEPT ![p] = ref[s]]
            /\ (IF ref[s] = 0 THEN Go(p, "idle") ELSE Go(p, "O2"))
            /\ UNCHANGED <<ref, owns, openedRetired>>
       ELSE /\ ref' = [ref EXCEPT ![s] = @ + 1] /\ Go(p, "idle")
            /\ owns' = [owns EXCEPT ![p][s] = @ + 1]
            /\ openedRetired' = (openedRetired \/ retires[s] > 0 \/ ref[s] = 0)
            /\ UNCHANGED loaded
  /\ UNCHANGED <<openSet, gcSet, snapOf, newRef, cursor, nopen, retires, forced>> /\ UNCH_GC

(* ---- Snapshot.Close ---- *)
CloseCall(p, s) ==
  /\ pc[p] = "idle" /\ owns[p][s] > 0
  /\ owns' = [owns EXCEPT ![p][s] = @ - 1]
  /\ snapOf' = [snapOf EXCEPT ![p] = s]
  /\ ref' = [ref EXCEPT ![s] = @ - 1] /\ newRef' = [newRef EXCEPT ![p] = ref[s] - 1]
  /\ forced' = "dirty"
  /\ Go(p, "C2")
  /\ UNCHANGED <<openSet, gcSet, loaded, cursor, nopen, retires, openedRetired>> /\ UNCH_GC
C2(p) ==
  /\ pc[p] = "C2"
  /\ IF newRef[p] # 0 THEN Go(p, "idle") /\ UNCHANGED <<openSet, gcSet, retires>>
     ELSE /\ openSet' = openSet \ {snapOf[p]}             \* Delete of an absent element fails silently
          /\ gcSet' = gcSet \cup {snapOf[p]}               \* Insert of a present element fails silently
          /\ retires' = [retires EXCEPT ![snapOf[p]] = @ + 1]
          /\ Go(p, "C3")
  /\ UNCHANGED <<ref, snapOf, loaded, newRef, cursor, nopen, owns, openedRetired, forced>> /\ UNCH_GC

(* ---- GC() / collectDead ---- *)
MinGC(after) == LET c == {s \in gcSet : s > after} IN IF c = {} THEN 0 ELSE CHOOSE s \in c : \A t \in c : s <= t
TryLock(p, lbl) ==         \* from C3 (Close) or from idle (explicit GC call)
  /\ IF gcRunning = 0 THEN gcRunning' = 1 /\ Go(p, "G1") ELSE gcRunning' = gcRunning /\ Go(p, "idle")
C3(p) == /\ pc[p] = "C3" /\ TryLock(p, "C3")
         /\ UNCHANGED <<ref, openSet, gcSet, lastGCSn, sent, snapOf, loaded, newRef, cursor, nopen, owns, retires, openedRetired, forced>>
GCCall(p) == /\ pc[p] = "idle" /\ forced # "done" /\ \A q \in Procs : pc[q] = "idle"     \* only the quiescent, forced pass is modelled
             /\ TryLock(p, "idle") /\ forced' = "running"
             /\ UNCHANGED <<ref, openSet, gcSet, lastGCSn, sent, snapOf, loaded, newRef, cursor, nopen, owns, retires, openedRetired>>
(* collectDead returns and GC() releases the try-lock before the next yield point (G3) *)
Finish(p) == /\ gcRunning' = 0 /\ Go(p, "G3")
             /\ forced' = (IF forced = "running" THEN "done" ELSE forced)
Advance(p, first) ==       \* examine the next retired snapshot: stop, or advance lastGCSn and park before the send
  IF first = 0 \/ first # lastGCSn + 1
    THEN Finish(p) /\ UNCHANGED <<lastGCSn, cursor>>
    ELSE lastGCSn' = first /\ cursor' = [cursor EXCEPT ![p] = first] /\ Go(p, "G2") /\ UNCHANGED <<gcRunning, forced>>
G1(p) == /\ pc[p] = "G1" /\ Advance(p, MinGC(0))
         /\ UNCHANGED <<ref, openSet, gcSet, sent, snapOf, loaded, newRef, nopen, owns, retires, openedRetired>>
G2(p) == /\ pc[p] = "G2"
         /\ sent' = Append(sent, cursor[p]) /\ gcSet' = gcSet \ {cursor[p]}
         /\ LET nxt == LET c == {s \in gcSet \ {cursor[p]} : s > cursor[p]} IN IF c = {} THEN 0 ELSE CHOOSE s \in c : \A t \in c : s <= t IN
            IF nxt = 0 \/ nxt # lastGCSn + 1
              THEN Finish(p) /\ UNCHANGED <<lastGCSn, cursor>>
              ELSE lastGCSn' = nxt /\ cursor' = [cursor EXCEPT ![p] = nxt] /\ Go(p, "G2") /\ UNCHANGED <<gcRunning, forced>>
         /\ UNCHANGED <<ref, openSet, snapOf, loaded, newRef, nopen, owns, retires, openedRetired>>
G3(p) == /\ pc[p] = "G3" /\ Go(p, "idle")
         /\ UNCHANGED <<ref, openSet, gcSet, lastGCSn, gcRunning, sent, snapOf, loaded, newRef, cursor, nopen, owns, retires, openedRetired, forced>>

Step(p) == (\E s \in Snaps : OpenCall(p, s) \/ CloseCall(p, s)) \/ O2(p) \/ C2(p) \/ C3(p) \/ GCCall(p) \/ G1(p) \/ G2(p) \/ G3(p)
Next == \E p \in Procs : Step(p)
Spec == Init /\ [][Next]_vars

(* ---- C08 ---- *)
Retired(s) == retires[s] > 0
NoOwnerOfRetired == ~openedRetired /\ \A s \in Snaps : Retired(s) => ref[s] = 0 /\ \A p \in Procs : owns[p][s] = 0
RetiredOnce == \A s \in Snaps : retires[s] <= 1
SentInOrder == \A i \in 1..Len(sent) : sent[i] = i
AllClosedUpTo(n) == \A s \in 1..n : Retired(s)
CollectorNotStuck ==
  (forced = "done" /\ \A p \in Procs : pc[p] = "idle") =>
     lastGCSn = (CHOOSE n \in 0..NSnap : AllClosedUpTo(n) /\ (n = NSnap \/ ~AllClosedUpTo(n + 1)))
=============================================================================
