SPECIFICATION TSpec
CONSTANTS
  Procs = {"p1", "p2", "p3", "p4", "p5", "p6"}
  Keys = {}
  MaxOps = 1000000
  MaxNodes = 40
  Top = 3
  IterProcs = {}
  InFlightDelN = TRUE
  FIXK1 = TRUE
INVARIANT NoDrift
INVARIANT NoDupKeys
INVARIANT DeleteOnce
INVARIANT QStruct
INVARIANT NoMarkedLinked
CHECK_DEADLOCK TRUE
