SPECIFICATION TSpec
INVARIANT NotAccepted
POSTCONDITION Post
CHECK_DEADLOCK FALSE
