------------------------- MODULE Trace_Builder -------------------------
(* Trace validation of skiplist.Builder: every node callback is an Add(s, level) step of Builder.tla
   (levels are random in the code and taken from the log), Assemble is the Assemble step; the
   per-level chains walked on the real structure are compared with the expected chains
   (verdict) and with the model's pointer structure (drift).  Operations on the assembled list are
   judged against an ordered set. *)
EXTENDS Builder, Json, TLCExt
VARIABLES l, bad, drift, itemOf, set
tvars == <<bvars, l, bad, drift, itemOf, set>>
TLog == ndJsonDeserialize("trace.ndjson")
Ev == TLog[l]
N == Len(TLog)
First(cs) == LET F == {i \in 1..Len(cs) : ~cs[i][1]} IN
             IF F = {} THEN "" ELSE cs[CHOOSE i \in F : \A j \in F : i <= j][2]
Note(old, new, tag) == IF old # "" THEN old
                       ELSE IF new # "" /\ PrintT(<<tag, l, new>>) THEN new ELSE new
Step(e) == l <= N /\ Ev.e = e /\ l' = l + 1
Rng(q) == {q[i] : i \in 1..Len(q)}
RECURSIVE SortSet(_)
SortSet(S) == IF S = {} THEN <<>> ELSE LET m == CHOOSE x \in S : \A y \in S : x <= y IN <<m>> \o SortSet(S \ {m})
Items(q) == [i \in 1..Len(q) |-> itemOf[q[i]]]

Fresh == /\ segs' = [s \in Segs |-> <<>>] /\ lvl' = [n \in Nodes |-> 0]
         /\ shead' = [s \in Segs |-> [k \in Lvls |-> 0]] /\ stail' = [s \in Segs |-> [k \in Lvls |-> 0]]
         /\ nx' = [n \in Nodes \cup {HEAD} |-> [k \in Lvls |-> IF n = HEAD THEN TAIL ELSE 0]]
         /\ nnodes' = 0 /\ cnt' = [s \in Segs |-> [k \in Lvls |-> 0]] /\ built' = "filling"
         /\ gcount' = [k \in Lvls |-> 0] /\ itemOf' = [n \in Nodes |-> 0] /\ set' = {}

TInit == l = 2 /\ bad = "" /\ drift = "" /\ TLog[1].e = "BInit" /\ BInit /\ itemOf = [n \in Nodes |-> 0] /\ set = {}
TReset == Step("BInit") /\ Fresh /\ UNCHANGED <<bad, drift>>
TAdd == /\ Step("Add") /\ Add(Ev.s, Ev.lvl) /\ itemOf' = [itemOf EXCEPT ![nnodes + 1] = Ev.item]
        /\ UNCHANGED <<bad, drift, set>>

LChain(k) == IF k + 1 <= Len(Ev.chains) THEN Ev.chains[k + 1] ELSE <<>>
StatChecks(S) ==
  << <<Ev.nodes = Cardinality(S), "C18:node count statistic differs from the content">>,
     <<Ev.softdel = 0 /\ Ev.marks = 0, "C18:deleted nodes linked / soft-delete statistic non-zero at quiescence">>,
     <<Ev.statmem = Ev.walkmem, "C18:memory statistic differs from a walk of the structure">>,
     <<Ev.distabove = 0 /\ \A k \in 1..Len(Ev.dist) : Ev.dist[k] = Len(Ev.chains[k]) - (IF k < Len(Ev.chains) THEN Len(Ev.chains[k + 1]) ELSE 0),
       "C18:per-level node distribution differs from the level chains">>,
     <<\A k \in 1..Len(Ev.tailok) : Ev.tailok[k], "C18:a level chain does not end at the tail sentinel">> >>

TAssemble ==
  /\ Step("Assemble") /\ Assemble /\ UNCHANGED itemOf
  /\ set' = {itemOf[n] : n \in 1..nnodes}
  /\ bad' = Note(bad, First(<< <<\A k \in Lvls : LChain(k) = Items(AtLevel(Concat(1), k)),
                               "C18:a level of the assembled skiplist is not the concatenation of the segments' nodes of that height">> >>
                            \o StatChecks({itemOf[n] : n \in 1..nnodes})), "BAD")
  /\ drift' = Note(drift, First(<< <<\A k \in Lvls : LChain(k) = Items(LevelChainOf(nx', k)), "model pointer structure differs from the real chains">> >>), "DRIFT")

(* operations on the assembled list behave like on an incrementally built one *)
SubSeqOf(a, b) == Rng(a) \subseteq Rng(b)
OpChecks(S) ==
  << <<Ev.scan = SortSet(S), "C18:iteration over the assembled list differs from the ordered set">>,
     <<Ev.chains[1] = SortSet(S), "C18:level 0 differs from the ordered set">>,
     <<\A k \in 2..Len(Ev.chains) : SubSeqOf(Ev.chains[k], Ev.chains[k - 1]), "C18:an upper level is not a sub-sequence of the level below">> >>
   \o StatChecks(S)
TInsert == /\ Step("Insert") /\ set' = set \cup {Ev.x} /\ UNCHANGED <<bvars, itemOf, drift>>
           /\ bad' = Note(bad, First(<< <<Ev.ok = (Ev.x \notin set), "C18:Insert on the assembled list: wrong result">> >> \o OpChecks(set')), "BAD")
TDelete == /\ Step("Delete") /\ set' = set \ {Ev.x} /\ UNCHANGED <<bvars, itemOf, drift>>
           /\ bad' = Note(bad, First(<< <<Ev.ok = (Ev.x \in set), "C18:Delete on the assembled list: wrong result">> >> \o OpChecks(set')), "BAD")
TLookup == /\ Step("Lookup") /\ UNCHANGED <<bvars, itemOf, drift, set>>
           /\ bad' = Note(bad, First(<< <<Ev.ok = (Ev.x \in set), "C18:Lookup on the assembled list: wrong result">> >> \o OpChecks(set)), "BAD")
(* a panic raised by a legal call sequence is behaviour of the real code (driver: guarded()) *)
TPanic == /\ l <= N /\ Ev.e = "Panic" /\ l' = l + 1 /\ UNCHANGED <<bvars, drift, itemOf, set>>
          /\ bad' = Note(bad, "C18:the call panicked: " \o Ev.msg \o " (" \o Ev.where \o ")", "BAD")
TDone == l = N + 1 /\ UNCHANGED tvars
TNext == TReset \/ TAdd \/ TAssemble \/ TInsert \/ TDelete \/ TLookup \/ TPanic \/ TDone
TSpec == TInit /\ [][TNext]_tvars
Good == bad = ""
=============================================================================
